//! C11 – problem, matrix and solution documents survive round trips (DESIGN.md §3 C11).
//!
//! Three clauses, three workloads:
//! (1) `ser(parse(ser(d))) == ser(d)` for problem / matrix / solution documents through the public (de)serialisers,
//!     compared with an OWN JSON reader (numbers are compared numerically from their literals with correctly rounded
//!     `str::parse::<f64>`, tolerance 2 ulp; integer literals exactly) plus the first hop `d ⊆ ser(parse(d))`
//!     (no silently dropped / renamed field);
//! (2) `S = solve(P)`, `read_init_solution(S)` must be `Ok` and give, per vehicle shift, the same ordered customer
//!     activities (job id, task kind, task, place index, location) and the same unassigned id set; the expected list is
//!     derived from the solution JSON and the problem JSON only (own/O1 parser);
//! (3) generated CSV job/vehicle tables → `import_problem("csv")`/`read_csv_problem` → valid problem carrying exactly
//!     the tables' data.

use serde_json::{Map, Value, json};
use std::collections::{BTreeMap, BTreeSet};
use std::io::{BufReader, BufWriter};
use std::sync::Arc;
use vrp_core::models::Problem as CoreProblem;
use vrp_core::models::problem::{JobIdDimension, VehicleIdDimension};
use vrp_core::utils::DefaultRandom;
use vrp_pragmatic::format::problem::{Matrix, deserialize_matrix, deserialize_problem, serialize_problem};
use vrp_pragmatic::format::solution::{deserialize_solution, read_init_solution, serialize_solution};
use vrp_pragmatic::format::{JobTypeDimension, PlaceTagsDimension, ShiftIndexDimension};
use vverif::pragen::{GenCfg, PragProblem, generate};
use vverif::replay::PProblem;
use vverif::solverun::{ReadOutcome, SolveOutcome, gen_config, read_problem, read_problem_texts, simple_config, solve_with_config};
use vverif::timeutil::{fmt_off, fmt_time, parse_time};
use vverif::{Rng, Run, clip, mix, par_for};

// =================================================================================================
// own JSON reader: numbers are kept as literals

#[derive(Clone, Debug)]
enum J {
    Null,
    Bool(bool),
    Num(String),
    Str(String),
    Arr(Vec<J>),
    Obj(BTreeMap<String, J>),
}

struct JParser<'a> {
    b: &'a [u8],
    i: usize,
}

impl<'a> JParser<'a> {
    fn ws(&mut self) {
        while self.i < self.b.len() && matches!(self.b[self.i], b' ' | b'\t' | b'\n' | b'\r') {
            self.i += 1;
        }
    }

    fn err<T>(&self, what: &str) -> Result<T, String> {
        Err(format!("{what} at byte {}", self.i))
    }

    fn lit(&mut self, s: &str, v: J) -> Result<J, String> {
        if self.b[self.i..].starts_with(s.as_bytes()) {
            self.i += s.len();
            Ok(v)
        } else {
            self.err("bad literal")
        }
    }

    fn value(&mut self, depth: usize) -> Result<J, String> {
        if depth > 200 {
            return self.err("nesting too deep");
        }
        self.ws();
        let Some(c) = self.b.get(self.i).copied() else { return self.err("unexpected end") };
        match c {
            b'n' => self.lit("null", J::Null),
            b't' => self.lit("true", J::Bool(true)),
            b'f' => self.lit("false", J::Bool(false)),
            b'"' => Ok(J::Str(self.string()?)),
            b'[' => {
                self.i += 1;
                let mut items = Vec::new();
                self.ws();
                if self.b.get(self.i) == Some(&b']') {
                    self.i += 1;
                    return Ok(J::Arr(items));
                }
                loop {
                    items.push(self.value(depth + 1)?);
                    self.ws();
                    match self.b.get(self.i) {
                        Some(b',') => self.i += 1,
                        Some(b']') => {
                            self.i += 1;
                            return Ok(J::Arr(items));
                        }
                        _ => return self.err("expected , or ]"),
                    }
                }
            }
            b'{' => {
                self.i += 1;
                let mut map = BTreeMap::new();
                self.ws();
                if self.b.get(self.i) == Some(&b'}') {
                    self.i += 1;
                    return Ok(J::Obj(map));
                }
                loop {
                    self.ws();
                    if self.b.get(self.i) != Some(&b'"') {
                        return self.err("expected key");
                    }
                    let k = self.string()?;
                    self.ws();
                    if self.b.get(self.i) != Some(&b':') {
                        return self.err("expected :");
                    }
                    self.i += 1;
                    let v = self.value(depth + 1)?;
                    if map.insert(k.clone(), v).is_some() {
                        return Err(format!("duplicate key '{k}'"));
                    }
                    self.ws();
                    match self.b.get(self.i) {
                        Some(b',') => self.i += 1,
                        Some(b'}') => {
                            self.i += 1;
                            return Ok(J::Obj(map));
                        }
                        _ => return self.err("expected , or }"),
                    }
                }
            }
            b'-' | b'0'..=b'9' => self.number(),
            _ => self.err("unexpected character"),
        }
    }

    fn number(&mut self) -> Result<J, String> {
        let st = self.i;
        if self.b.get(self.i) == Some(&b'-') {
            self.i += 1;
        }
        let d0 = self.i;
        while self.i < self.b.len() && self.b[self.i].is_ascii_digit() {
            self.i += 1;
        }
        if self.i == d0 {
            return self.err("digits expected");
        }
        if self.b.get(self.i) == Some(&b'.') {
            self.i += 1;
            let f0 = self.i;
            while self.i < self.b.len() && self.b[self.i].is_ascii_digit() {
                self.i += 1;
            }
            if self.i == f0 {
                return self.err("fraction digits expected");
            }
        }
        if matches!(self.b.get(self.i), Some(b'e') | Some(b'E')) {
            self.i += 1;
            if matches!(self.b.get(self.i), Some(b'+') | Some(b'-')) {
                self.i += 1;
            }
            let e0 = self.i;
            while self.i < self.b.len() && self.b[self.i].is_ascii_digit() {
                self.i += 1;
            }
            if self.i == e0 {
                return self.err("exponent digits expected");
            }
        }
        Ok(J::Num(String::from_utf8_lossy(&self.b[st..self.i]).to_string()))
    }

    fn hex4(&mut self) -> Result<u32, String> {
        let Some(s) = self.b.get(self.i..self.i + 4) else { return self.err("short \\u escape") };
        let s = std::str::from_utf8(s).map_err(|_| "bad \\u escape".to_string())?;
        let v = u32::from_str_radix(s, 16).map_err(|_| "bad \\u escape".to_string())?;
        self.i += 4;
        Ok(v)
    }

    fn string(&mut self) -> Result<String, String> {
        self.i += 1; // opening quote
        let mut out: Vec<u8> = Vec::new();
        loop {
            let Some(c) = self.b.get(self.i).copied() else { return self.err("unterminated string") };
            self.i += 1;
            match c {
                b'"' => break,
                b'\\' => {
                    let Some(e) = self.b.get(self.i).copied() else { return self.err("unterminated escape") };
                    self.i += 1;
                    let ch = match e {
                        b'"' => '"',
                        b'\\' => '\\',
                        b'/' => '/',
                        b'b' => '\u{8}',
                        b'f' => '\u{c}',
                        b'n' => '\n',
                        b'r' => '\r',
                        b't' => '\t',
                        b'u' => {
                            let hi = self.hex4()?;
                            if (0xD800..0xDC00).contains(&hi) {
                                if self.b.get(self.i) == Some(&b'\\') && self.b.get(self.i + 1) == Some(&b'u') {
                                    self.i += 2;
                                    let lo = self.hex4()?;
                                    char::from_u32(0x10000 + ((hi - 0xD800) << 10) + (lo.wrapping_sub(0xDC00) & 0x3FF)).unwrap_or('\u{FFFD}')
                                } else {
                                    '\u{FFFD}'
                                }
                            } else {
                                char::from_u32(hi).unwrap_or('\u{FFFD}')
                            }
                        }
                        _ => return self.err("bad escape"),
                    };
                    let mut buf = [0u8; 4];
                    out.extend_from_slice(ch.encode_utf8(&mut buf).as_bytes());
                }
                _ => out.push(c),
            }
        }
        String::from_utf8(out).map_err(|_| "string is not utf-8".to_string())
    }
}

fn j_parse(text: &str) -> Result<J, String> {
    let mut p = JParser { b: text.as_bytes(), i: 0 };
    let v = p.value(0)?;
    p.ws();
    if p.i != p.b.len() {
        return p.err("trailing characters");
    }
    Ok(v)
}

impl J {
    fn get(&self, k: &str) -> Option<&J> {
        match self {
            J::Obj(m) => m.get(k).filter(|v| !matches!(v, J::Null)),
            _ => None,
        }
    }
    fn arr(&self) -> &[J] {
        match self {
            J::Arr(a) => a,
            _ => &[],
        }
    }
    fn str(&self) -> Option<&str> {
        match self {
            J::Str(s) => Some(s),
            _ => None,
        }
    }
    fn num(&self) -> Option<&str> {
        match self {
            J::Num(s) => Some(s),
            _ => None,
        }
    }
    fn brief(&self) -> String {
        match self {
            J::Null => "null".into(),
            J::Bool(b) => b.to_string(),
            J::Num(n) => n.clone(),
            J::Str(s) => format!("{:?}", clip(s, 60)),
            J::Arr(a) => format!("[array of {}]", a.len()),
            J::Obj(m) => format!("{{object with keys {:?}}}", m.keys().take(8).collect::<Vec<_>>()),
        }
    }
}

// ------------------------------------------------------------------------------------------------
// numeric comparison "to the last but one bit"

const MAX_ULP: i128 = 2;

fn is_int_literal(s: &str) -> bool {
    !s.contains(['.', 'e', 'E'])
}

fn ordered_bits(v: f64) -> i128 {
    let b = v.to_bits() as i64;
    (if b < 0 { i64::MIN.wrapping_sub(b) } else { b }) as i128
}

/// Distance of two number literals: `Some(0)` equal, `Some(k)` k ulp apart, `None` = different in a way ulps cannot express.
fn num_distance(a: &str, b: &str) -> Option<i128> {
    if is_int_literal(a) && is_int_literal(b) {
        if let (Ok(x), Ok(y)) = (a.parse::<i128>(), b.parse::<i128>()) {
            return if x == y { Some(0) } else { None };
        }
    }
    let (x, y) = (a.parse::<f64>().ok()?, b.parse::<f64>().ok()?);
    if !x.is_finite() || !y.is_finite() {
        return None;
    }
    if x == y {
        return Some(0);
    }
    Some((ordered_bits(x) - ordered_bits(y)).abs())
}

#[derive(Default)]
struct NumStat {
    compared: u64,
    inexact: u64,
    max_ulp: i128,
}

struct Diff {
    /// path with array indices replaced by `[]` (stable signature component)
    class: String,
    path: String,
    kind: &'static str,
    left: String,
    right: String,
}

fn path_strings(path: &[String]) -> (String, String) {
    let full = path.join("");
    let class: String = path.iter().map(|p| if p.starts_with('[') { "[]".to_string() } else { p.clone() }).collect();
    (class.trim_start_matches('.').to_string(), full.trim_start_matches('.').to_string())
}

/// First difference of `a` and `b`. `subset`: every field of `a` must be in `b` (a `null` of `a` may be absent in `b`,
/// `b` may hold more fields); otherwise the two must be identical.
fn j_diff(a: &J, b: &J, subset: bool, path: &mut Vec<String>, st: &mut NumStat) -> Option<Diff> {
    let mk = |path: &Vec<String>, kind: &'static str, l: String, r: String| {
        let (class, full) = path_strings(path);
        Some(Diff { class, path: full, kind, left: l, right: r })
    };
    match (a, b) {
        (J::Null, J::Null) => None,
        (J::Bool(x), J::Bool(y)) if x == y => None,
        (J::Str(x), J::Str(y)) if x == y => None,
        (J::Num(x), J::Num(y)) => {
            st.compared += 1;
            match num_distance(x, y) {
                Some(d) if d <= MAX_ULP => {
                    if d > 0 {
                        st.inexact += 1;
                        st.max_ulp = st.max_ulp.max(d);
                    }
                    None
                }
                Some(d) => mk(path, "number", x.clone(), format!("{y} ({d} ulp apart)")),
                None => mk(path, "number", x.clone(), y.clone()),
            }
        }
        (J::Arr(x), J::Arr(y)) => {
            if x.len() != y.len() {
                return mk(path, "length", format!("{} items", x.len()), format!("{} items", y.len()));
            }
            for (i, (p, q)) in x.iter().zip(y.iter()).enumerate() {
                path.push(format!("[{i}]"));
                let d = j_diff(p, q, subset, path, st);
                path.pop();
                if d.is_some() {
                    return d;
                }
            }
            None
        }
        (J::Obj(x), J::Obj(y)) => {
            for (k, p) in x.iter() {
                path.push(format!(".{k}"));
                let d = match y.get(k) {
                    Some(q) => j_diff(p, q, subset, path, st),
                    None if subset && matches!(p, J::Null) => None,
                    None => mk(path, "missing", p.brief(), "<absent>".into()),
                };
                path.pop();
                if d.is_some() {
                    return d;
                }
            }
            if !subset {
                for (k, q) in y.iter() {
                    if !x.contains_key(k) {
                        path.push(format!(".{k}"));
                        let d = mk(path, "extra", "<absent>".into(), q.brief());
                        path.pop();
                        return d;
                    }
                }
            }
            None
        }
        (J::Bool(_), J::Bool(_)) | (J::Str(_), J::Str(_)) => mk(path, "value", a.brief(), b.brief()),
        _ => mk(path, "type", a.brief(), b.brief()),
    }
}

// =================================================================================================
// clause (1): serialise -> parse -> serialise through the public API

#[derive(Clone, Copy, PartialEq, Eq, Debug)]
enum Kind {
    Problem,
    Matrix,
    Solution,
}

impl Kind {
    fn name(&self) -> &'static str {
        match self {
            Kind::Problem => "problem",
            Kind::Matrix => "matrix",
            Kind::Solution => "solution",
        }
    }
    fn from_name(s: &str) -> Kind {
        match s {
            "matrix" => Kind::Matrix,
            "solution" => Kind::Solution,
            _ => Kind::Problem,
        }
    }
}

fn into_text(w: BufWriter<Vec<u8>>) -> Result<String, String> {
    let bytes = w.into_inner().map_err(|e| e.to_string())?;
    String::from_utf8(bytes).map_err(|e| e.to_string())
}

/// `ser(parse(text))` with the public (de)serialisers of the format.
fn parse_ser(kind: Kind, text: &str) -> Result<String, String> {
    match kind {
        Kind::Problem => {
            let p = deserialize_problem(BufReader::new(text.as_bytes())).map_err(|e| format!("parse: {e}"))?;
            let mut w = BufWriter::new(Vec::new());
            serialize_problem(&p, &mut w).map_err(|e| format!("serialise: {e}"))?;
            into_text(w)
        }
        Kind::Matrix => {
            let m: Matrix = deserialize_matrix(BufReader::new(text.as_bytes())).map_err(|e| format!("parse: {e}"))?;
            serde_json::to_string_pretty(&m).map_err(|e| format!("serialise: {e}"))
        }
        Kind::Solution => {
            let s = deserialize_solution(BufReader::new(text.as_bytes())).map_err(|e| format!("parse: {e}"))?;
            let mut w = BufWriter::new(Vec::new());
            serialize_solution(&s, &mut w).map_err(|e| format!("serialise: {e}"))?;
            into_text(w)
        }
    }
}

struct DocSpec {
    kind: Kind,
    /// where the document comes from: `g1`, `g1+ext`, `solver`, `synthetic`, `csv-import` ...
    origin: String,
    text: String,
    /// the document with code-level aliases renamed to their canonical names (used for the first-hop subset check)
    canonical: Option<String>,
    /// the document was itself produced by the serialiser: the first hop must already be the identity
    from_serialiser: bool,
    case_seed: u64,
}

fn doc_artefact(spec: &DocSpec, extra: Value) -> Value {
    json!({
        "kind": "doc",
        "doc_kind": spec.kind.name(),
        "origin": spec.origin,
        "case_seed": spec.case_seed,
        "from_serialiser": spec.from_serialiser,
        "text": spec.text,
        "canonical": spec.canonical,
        "extra": extra,
    })
}

/// One oracle verdict on one document. Returns true when the document held.
fn roundtrip_doc(run: &Run, spec: &DocSpec) -> bool {
    let k = spec.kind.name();
    run.eval();
    run.observe("documents", &format!("{k}:{}", spec.origin));
    // hop 1
    let s1 = match run.guard(|| parse_ser(spec.kind, &spec.text)) {
        Ok(Ok(s)) => s,
        Ok(Err(e)) => {
            let stage = if e.starts_with("parse") { "parse-error" } else { "serialise-error" };
            run.violation(&format!("C11|roundtrip|{k}|{stage}|{}", spec.origin), &format!("{k} document ({}) cannot be round-tripped: {}", spec.origin, clip(&e, 300)), doc_artefact(spec, json!({"error": e})));
            return false;
        }
        Err(p) => {
            run.violation(&format!("C11|roundtrip|{k}|panic|{}", p.file()), &format!("panic while round-tripping a {k} document: {} at {}", p.message, p.location), doc_artefact(spec, p.to_json()));
            return false;
        }
    };
    // hop 2
    let s2 = match run.guard(|| parse_ser(spec.kind, &s1)) {
        Ok(Ok(s)) => s,
        Ok(Err(e)) => {
            run.violation(&format!("C11|roundtrip|{k}|own-output-rejected|{}", spec.origin), &format!("the serialiser's own {k} output is rejected by the parser: {}", clip(&e, 300)), doc_artefact(spec, json!({"error": e, "s1": s1})));
            return false;
        }
        Err(p) => {
            run.violation(&format!("C11|roundtrip|{k}|panic|{}", p.file()), &format!("panic while re-reading serialiser output of a {k} document: {} at {}", p.message, p.location), doc_artefact(spec, p.to_json()));
            return false;
        }
    };
    let (j1, j2) = match (j_parse(&s1), j_parse(&s2)) {
        (Ok(a), Ok(b)) => (a, b),
        (a, b) => {
            let e = a.err().or(b.err()).unwrap_or_default();
            run.violation(&format!("C11|roundtrip|{k}|output-not-json"), &format!("serialiser output is not well-formed JSON: {e}"), doc_artefact(spec, json!({"s1": s1})));
            return false;
        }
    };
    let mut st = NumStat::default();
    // the identity the property states: ser(parse(ser(d))) == ser(d)
    if let Some(d) = j_diff(&j1, &j2, false, &mut vec![], &mut st) {
        run.violation(
            &format!("C11|roundtrip|{k}|not-identical|{}|{}", d.kind, d.class),
            &format!("ser(parse(ser(d))) != ser(d) for a {k} document ({}): at {} [{}] first serialisation has {}, second has {}", spec.origin, d.path, d.kind, d.left, d.right),
            doc_artefact(spec, json!({"path": d.path, "first": d.left, "second": d.right})),
        );
        return false;
    }
    // first hop: nothing of d may be dropped, renamed or changed
    let d_text = spec.canonical.as_ref().unwrap_or(&spec.text);
    let jd = match j_parse(d_text) {
        Ok(j) => j,
        Err(e) => {
            run.inconclusive(&format!("own JSON reader rejects the input document: {e}"));
            return false;
        }
    };
    if let Some(d) = j_diff(&jd, &j1, !spec.from_serialiser, &mut vec![], &mut st) {
        let rule = if spec.from_serialiser { "serialiser-output-changed" } else { "first-hop" };
        run.violation(
            &format!("C11|roundtrip|{k}|{rule}|{}|{}", d.kind, d.class),
            &format!("{k} document ({}) does not survive parse+serialise: at {} [{}] document has {}, ser(parse(d)) has {}", spec.origin, d.path, d.kind, d.left, d.right),
            doc_artefact(spec, json!({"path": d.path, "document": d.left, "reserialised": d.right})),
        );
        return false;
    }
    run.observe_n("numbers", "compared", st.compared);
    run.observe_n("numbers", "not bit-identical but within 2 ulp", st.inexact);
    if st.max_ulp > 0 {
        run.observe("numbers", &format!("max ulp distance {}", st.max_ulp));
    }
    true
}

// =================================================================================================
// document generators for clause (1)

fn hostile_f64(rng: &mut Rng) -> f64 {
    const FIXED: [f64; 22] = [
        0.0,
        -0.0,
        1.0,
        0.1,
        0.30000000000000004,
        1e-7,
        1.7976931348623157e308,
        5e-324,
        2.2250738585072014e-308,
        2.225073858507201e-308,
        123456789.12345679,
        1e21,
        1e22,
        1e23,
        9007199254740993.0,
        4.35,
        0.7999999999999999,
        0.3333333333333333,
        8.41e21,
        2.0e-3,
        -1234.5678,
        6.02214076e23,
    ];
    match rng.usize_below(4) {
        0 => *rng.pick(&FIXED),
        1 => {
            for _ in 0..8 {
                let v = f64::from_bits(rng.next_u64());
                if v.is_finite() {
                    return v;
                }
            }
            1.5
        }
        2 => rng.range_i64(-100_000_000, 100_000_000) as f64 / 10f64.powi(rng.range_i64(0, 9) as i32),
        _ => rng.f64() * 10f64.powi(rng.range_i64(-12, 12) as i32),
    }
}

/// Replaces float-typed numbers (emitted as JSON floats by the generators) by hostile values with probability `p`;
/// whole floats are sometimes written as integer literals (a `Float` field accepts `5` as well as `5.0`).
fn hostile_walk(rng: &mut Rng, v: &mut Value, p: f64) {
    match v {
        Value::Number(n) if n.is_f64() => {
            if rng.chance(p) {
                let h = hostile_f64(rng);
                if let Some(num) = serde_json::Number::from_f64(h) {
                    *v = Value::Number(num);
                }
            } else if rng.chance(p * 0.5) {
                let f = n.as_f64().unwrap_or(0.5);
                if f.fract() == 0.0 && f.abs() < 9.0e15 {
                    *v = json!(f as i64);
                }
            }
        }
        Value::Array(a) => a.iter_mut().for_each(|x| hostile_walk(rng, x, p)),
        Value::Object(m) => m.values_mut().for_each(|x| hostile_walk(rng, x, p)),
        _ => {}
    }
}

fn some_time(rng: &mut Rng) -> String {
    let t = rng.range_i64(0, 400_000);
    match rng.usize_below(6) {
        0 => format!("{}+02:00", fmt_off(t + 7200).trim_end_matches('Z')),
        1 => format!("{}-05:30", fmt_off(t - 19_800).trim_end_matches('Z')),
        _ => fmt_off(t),
    }
}

fn some_location(rng: &mut Rng) -> Value {
    match rng.usize_below(10) {
        0..=5 => json!({"index": rng.usize_below(40)}),
        6..=8 => json!({"lat": 52.0 + rng.f64(), "lng": 13.0 + rng.f64()}),
        _ => json!({"type": "unknown"}),
    }
}

fn some_windows(rng: &mut Rng) -> Value {
    let n = rng.range_usize(1, 3);
    Value::Array((0..n).map(|_| json!([some_time(rng), some_time(rng)])).collect())
}

fn some_break(rng: &mut Rng) -> Value {
    if rng.chance(0.6) {
        let time = if rng.chance(0.5) { json!([some_time(rng), some_time(rng)]) } else { json!([rng.range_i64(0, 5000) as f64, rng.range_i64(5000, 9000) as f64]) };
        let n = rng.range_usize(1, 2);
        let places: Vec<Value> = (0..n)
            .map(|k| {
                let mut p = Map::new();
                p.insert("duration".into(), json!(*rng.pick(&[0.0f64, 600., 1800., 45.5])));
                if rng.chance(0.5) {
                    p.insert("location".into(), some_location(rng));
                }
                if rng.chance(0.5) {
                    p.insert("tag".into(), json!(format!("bt{k}")));
                }
                Value::Object(p)
            })
            .collect();
        let mut b = Map::new();
        b.insert("time".into(), time);
        b.insert("places".into(), Value::Array(places));
        match rng.usize_below(4) {
            0 => {
                b.insert("policy".into(), json!("skip-if-no-intersection"));
            }
            1 => {
                b.insert("policy".into(), json!("skip-if-arrival-before-end"));
            }
            2 => {
                b.insert("policy".into(), Value::Null);
            }
            _ => {}
        }
        Value::Object(b)
    } else {
        let time = if rng.chance(0.5) {
            json!({"earliest": some_time(rng), "latest": some_time(rng)})
        } else {
            json!({"earliest": rng.range_i64(0, 5000) as f64, "latest": rng.range_i64(5000, 9000) as f64})
        };
        json!({"time": time, "duration": *rng.pick(&[300.0f64, 1800., 0.5])})
    }
}

const OBJECTIVES: [&str; 16] = [
    "minimize-cost",
    "minimize-distance",
    "minimize-duration",
    "minimize-tours",
    "maximize-tours",
    "maximize-value",
    "minimize-unassigned",
    "minimize-arrival-time",
    "balance-max-load",
    "balance-activities",
    "balance-distance",
    "balance-duration",
    "compact-tour",
    "tour-order",
    "fast-service",
    "hierarchical-areas",
];

fn some_objective(rng: &mut Rng, allow_multi: bool) -> Value {
    if allow_multi && rng.chance(0.2) {
        let n = rng.range_usize(1, 3);
        let inner: Vec<Value> = (0..n).map(|_| some_objective(rng, false)).collect();
        let strategy = if rng.chance(0.5) { json!({"name": "sum"}) } else { json!({"name": "weighted-sum", "weights": (0..n).map(|_| rng.f64()).collect::<Vec<_>>()}) };
        return json!({"type": "multi-objective", "strategy": strategy, "objectives": inner});
    }
    let t = *rng.pick(&OBJECTIVES);
    match t {
        "maximize-value" | "minimize-unassigned" => {
            if rng.chance(0.5) {
                json!({"type": t, "breaks": *rng.pick(&[0.5f64, 1.0, 100.0])})
            } else {
                json!({"type": t})
            }
        }
        "compact-tour" => json!({"type": t, "job_radius": rng.range_usize(1, 9)}),
        "hierarchical-areas" => json!({"type": t, "levels": rng.range_usize(1, 5)}),
        _ => json!({"type": t}),
    }
}

fn ids_of(p: &Value) -> (Vec<String>, Vec<String>) {
    let jobs = p["plan"]["jobs"].as_array().map(|a| a.iter().filter_map(|j| j["id"].as_str().map(String::from)).collect()).unwrap_or_default();
    let vehicles = p["fleet"]["vehicles"]
        .as_array()
        .map(|a| a.iter().flat_map(|v| v["vehicleIds"].as_array().cloned().unwrap_or_default()).filter_map(|v| v.as_str().map(String::from)).collect())
        .unwrap_or_default();
    (jobs, vehicles)
}

/// Extension pass over a G1 problem: adds every enum variant and optional field of `format/problem/model.rs`.
/// The result is well-formed with respect to the *model* (what clause 1 is about), not necessarily a valid problem.
fn extend_problem(rng: &mut Rng, p: &mut Value) {
    let (job_ids, vehicle_ids) = ids_of(p);
    let skills_pool = ["s1", "s2", "s3", "fridge"];
    if let Some(jobs) = p["plan"]["jobs"].as_array_mut() {
        for job in jobs.iter_mut() {
            if rng.chance(0.15) {
                let mut sk = Map::new();
                for key in ["allOf", "oneOf", "noneOf"] {
                    if rng.chance(0.5) {
                        let n = rng.range_usize(0, 2);
                        sk.insert(key.into(), json!((0..n).map(|_| *rng.pick(&skills_pool)).collect::<Vec<_>>()));
                    }
                }
                job["skills"] = Value::Object(sk);
            }
            if rng.chance(0.1) {
                job["value"] = json!(rng.range_i64(1, 100) as f64 + 0.5);
            }
            if rng.chance(0.1) {
                job["group"] = json!(format!("g{}", rng.usize_below(3)));
            }
            if rng.chance(0.1) {
                job["compatibility"] = json!(*rng.pick(&["A", "B"]));
            }
            if rng.chance(0.03) {
                job["group"] = Value::Null;
            }
            for key in ["pickups", "deliveries", "replacements", "services"] {
                let Some(tasks) = job.get_mut(key).and_then(|t| t.as_array_mut()) else { continue };
                for task in tasks.iter_mut() {
                    if rng.chance(0.1) {
                        task["order"] = json!(rng.range_i64(1, 5));
                    }
                    if key != "services" && rng.chance(0.05) {
                        task["demand"] = json!([*rng.pick(&[0i64, 1, i32::MAX as i64])]);
                    }
                    let Some(places) = task.get_mut("places").and_then(|t| t.as_array_mut()) else { continue };
                    for place in places.iter_mut() {
                        if rng.chance(0.1) {
                            place["tag"] = json!(format!("x{}", rng.usize_below(1000)));
                        }
                        if rng.chance(0.1) {
                            place["times"] = some_windows(rng);
                        }
                        if rng.chance(0.08) {
                            place["location"] = some_location(rng);
                        }
                        if rng.chance(0.03) {
                            place["tag"] = Value::Null;
                        }
                    }
                }
            }
        }
    }
    // relations
    if rng.chance(0.5) && !job_ids.is_empty() && !vehicle_ids.is_empty() {
        let n = rng.range_usize(1, 3);
        let rels: Vec<Value> = (0..n)
            .map(|_| {
                let mut jobs: Vec<String> = (0..rng.range_usize(1, 4)).map(|_| rng.pick(&job_ids).clone()).collect();
                if rng.chance(0.3) {
                    jobs.insert(0, "departure".into());
                }
                if rng.chance(0.2) {
                    jobs.push((*rng.pick(&["arrival", "break", "reload"])).to_string());
                }
                let mut r = Map::new();
                r.insert("type".into(), json!(*rng.pick(&["any", "sequence", "strict"])));
                r.insert("jobs".into(), json!(jobs));
                r.insert("vehicleId".into(), json!(rng.pick(&vehicle_ids)));
                if rng.chance(0.5) {
                    r.insert("shiftIndex".into(), json!(rng.usize_below(3)));
                }
                Value::Object(r)
            })
            .collect();
        p["plan"]["relations"] = Value::Array(rels);
    }
    // clustering
    if rng.chance(0.4) {
        let mut threshold = Map::new();
        threshold.insert("duration".into(), json!(rng.range_i64(10, 600) as f64));
        threshold.insert("distance".into(), json!(rng.range_i64(10, 600) as f64));
        if rng.chance(0.5) {
            threshold.insert("minSharedTime".into(), json!(rng.range_i64(0, 300) as f64));
        }
        if rng.chance(0.5) {
            threshold.insert("smallestTimeWindow".into(), json!(rng.range_i64(0, 300) as f64));
        }
        if rng.chance(0.5) {
            threshold.insert("maxJobsPerCluster".into(), json!(rng.range_usize(2, 9)));
        }
        let parking = *rng.pick(&[0.0f64, 120.0, 7.5]);
        let serving = match rng.usize_below(3) {
            0 => json!({"type": "original", "parking": parking}),
            1 => json!({"type": "multiplier", "value": 0.75, "parking": parking}),
            _ => json!({"type": "fixed", "value": 90.0, "parking": parking}),
        };
        let mut c = Map::new();
        c.insert("type".into(), json!("vicinity"));
        let mut profile = Map::new();
        profile.insert("matrix".into(), json!("car"));
        if rng.chance(0.3) {
            profile.insert("scale".into(), json!(1.25));
        }
        c.insert("profile".into(), Value::Object(profile));
        c.insert("threshold".into(), Value::Object(threshold));
        c.insert("visiting".into(), json!(*rng.pick(&["return", "continue"])));
        c.insert("serving".into(), serving);
        if rng.chance(0.5) {
            let n = rng.range_usize(0, 3);
            let ids: Vec<String> = if job_ids.is_empty() { vec![] } else { (0..n).map(|_| rng.pick(&job_ids).clone()).collect() };
            c.insert("filtering".into(), json!({"excludeJobIds": ids}));
        }
        p["plan"]["clustering"] = Value::Object(c);
    }
    // fleet
    let mut resource_ids: Vec<String> = Vec::new();
    if let Some(vehicles) = p["fleet"]["vehicles"].as_array_mut() {
        for v in vehicles.iter_mut() {
            if rng.chance(0.3) {
                if let Some(c) = v["costs"].as_object_mut() {
                    if rng.chance(0.5) {
                        c.remove("fixed");
                    } else {
                        c.insert("fixed".into(), json!(*rng.pick(&[0.0f64, 22.5, 100.0])));
                    }
                }
            }
            if rng.chance(0.3) {
                v["profile"]["scale"] = json!(*rng.pick(&[0.5f64, 1.1, 2.0]));
            }
            if rng.chance(0.3) {
                let n = rng.range_usize(0, 3);
                v["skills"] = json!((0..n).map(|_| *rng.pick(&skills_pool)).collect::<Vec<_>>());
            }
            if rng.chance(0.5) {
                let mut l = Map::new();
                if rng.chance(0.5) {
                    l.insert("maxDistance".into(), json!(rng.range_i64(10, 100_000) as f64));
                }
                if rng.chance(0.6) {
                    // `shiftTime` is the code-level alias of `maxDuration`
                    let key = if rng.chance(0.4) { "shiftTime" } else { "maxDuration" };
                    l.insert(key.into(), json!(rng.range_i64(10, 100_000) as f64));
                }
                if rng.chance(0.5) {
                    l.insert("tourSize".into(), json!(*rng.pick(&[0u64, 1, 7, 1000, u64::MAX])));
                }
                v["limits"] = Value::Object(l);
            }
            let Some(shifts) = v.get_mut("shifts").and_then(|s| s.as_array_mut()) else { continue };
            for shift in shifts.iter_mut() {
                if rng.chance(0.3) {
                    shift["start"]["latest"] = json!(some_time(rng));
                }
                if rng.chance(0.2) {
                    if let Some(s) = shift.as_object_mut() {
                        s.remove("end");
                    }
                } else if shift.get("end").is_some() && rng.chance(0.3) {
                    shift["end"]["earliest"] = json!(some_time(rng));
                } else if shift.get("end").is_none() && rng.chance(0.3) {
                    shift["end"] = json!({"latest": some_time(rng), "location": some_location(rng)});
                }
                if rng.chance(0.5) {
                    let n = rng.range_usize(1, 3);
                    shift["breaks"] = Value::Array((0..n).map(|_| some_break(rng)).collect());
                }
                if rng.chance(0.3) {
                    let n = rng.range_usize(1, 2);
                    let reloads: Vec<Value> = (0..n)
                        .map(|k| {
                            let mut r = Map::new();
                            r.insert("location".into(), some_location(rng));
                            r.insert("duration".into(), json!(*rng.pick(&[0.0f64, 300., 12.25])));
                            if rng.chance(0.5) {
                                r.insert("times".into(), some_windows(rng));
                            }
                            if rng.chance(0.5) {
                                r.insert("tag".into(), json!(format!("rl{k}")));
                            }
                            if rng.chance(0.5) {
                                let id = format!("res{}", rng.usize_below(2));
                                if !resource_ids.contains(&id) {
                                    resource_ids.push(id.clone());
                                }
                                r.insert("resourceId".into(), json!(id));
                            }
                            Value::Object(r)
                        })
                        .collect();
                    shift["reloads"] = Value::Array(reloads);
                }
                if rng.chance(0.25) {
                    let n = rng.range_usize(0, 2);
                    let stations: Vec<Value> = (0..n)
                        .map(|k| {
                            let mut s = Map::new();
                            s.insert("location".into(), some_location(rng));
                            s.insert("duration".into(), json!(*rng.pick(&[0.0f64, 900., 1800.])));
                            if rng.chance(0.4) {
                                s.insert("times".into(), some_windows(rng));
                            }
                            if rng.chance(0.4) {
                                s.insert("tag".into(), json!(format!("st{k}")));
                            }
                            Value::Object(s)
                        })
                        .collect();
                    shift["recharges"] = json!({"maxDistance": rng.range_i64(100, 100_000) as f64, "stations": stations});
                }
            }
        }
    }
    if let Some(profiles) = p["fleet"]["profiles"].as_array_mut() {
        for pr in profiles.iter_mut() {
            if rng.chance(0.4) {
                pr["speed"] = json!(*rng.pick(&[10.0f64, 16.67, 4.2]));
            }
        }
    }
    if !resource_ids.is_empty() || rng.chance(0.15) {
        if resource_ids.is_empty() {
            resource_ids.push("res0".into());
        }
        let res: Vec<Value> = resource_ids.iter().map(|id| json!({"type": "reload", "id": id, "capacity": [rng.range_i64(0, 500), rng.range_i64(0, 5)]})).collect();
        p["fleet"]["resources"] = Value::Array(res);
    }
    // objectives
    if rng.chance(0.7) {
        let n = rng.range_usize(1, 5);
        p["objectives"] = Value::Array((0..n).map(|_| some_objective(rng, true)).collect());
    } else if rng.chance(0.3) {
        if let Some(m) = p.as_object_mut() {
            m.remove("objectives");
        }
    }
    hostile_walk(rng, p, 0.12);
}

/// Renames the code-level aliases to the canonical field names (`limits.shiftTime` → `maxDuration`).
fn canonical_problem(p: &Value) -> Option<Value> {
    let mut q = p.clone();
    let mut any = false;
    for v in q["fleet"]["vehicles"].as_array_mut().into_iter().flatten() {
        if let Some(l) = v.get_mut("limits").and_then(|l| l.as_object_mut()) {
            if let Some(x) = l.remove("shiftTime") {
                l.insert("maxDuration".into(), x);
                any = true;
            }
        }
    }
    any.then_some(q)
}

// ------------------------------------------------------------------------------------------------
// coverage scanners: what the round-tripped documents really contained

fn cover_location(prefix: &str, l: &Value, out: &mut BTreeSet<String>) {
    if l.get("lat").is_some() {
        out.insert(format!("{prefix}Location::Coordinate"));
    } else if l.get("index").is_some() {
        out.insert(format!("{prefix}Location::Reference"));
    } else if l.get("type").is_some() {
        out.insert(format!("{prefix}Location::Custom"));
    }
}

fn has(v: &Value, k: &str) -> bool {
    v.get(k).is_some_and(|x| !x.is_null())
}

fn cover_objective(o: &Value, out: &mut BTreeSet<String>) {
    let t = o["type"].as_str().unwrap_or("?");
    out.insert(format!("problem:Objective::{t}"));
    if (t == "maximize-value" || t == "minimize-unassigned") && has(o, "breaks") {
        out.insert(format!("problem:Objective::{t}.breaks"));
    }
    if t == "multi-objective" {
        out.insert(format!("problem:MultiStrategy::{}", o["strategy"]["name"].as_str().unwrap_or("?")));
        for i in o["objectives"].as_array().into_iter().flatten() {
            cover_objective(i, out);
        }
    }
}

fn cover_problem(p: &Value, out: &mut BTreeSet<String>) {
    let opt = |cond: bool, name: &str, out: &mut BTreeSet<String>| {
        out.insert(format!("problem:{name}{}", if cond { "" } else { ":absent" }));
    };
    for job in p["plan"]["jobs"].as_array().into_iter().flatten() {
        for key in ["pickups", "deliveries", "replacements", "services"] {
            opt(has(job, key), &format!("Job.{key}"), out);
            for task in job.get(key).and_then(|t| t.as_array()).into_iter().flatten() {
                opt(has(task, "demand"), "JobTask.demand", out);
                opt(has(task, "order"), "JobTask.order", out);
                for place in task["places"].as_array().into_iter().flatten() {
                    opt(has(place, "times"), "JobPlace.times", out);
                    opt(has(place, "tag"), "JobPlace.tag", out);
                    cover_location("problem:", &place["location"], out);
                }
            }
        }
        for key in ["skills", "value", "group", "compatibility"] {
            opt(has(job, key), &format!("Job.{key}"), out);
        }
        if let Some(sk) = job.get("skills") {
            for key in ["allOf", "oneOf", "noneOf"] {
                opt(has(sk, key), &format!("JobSkills.{key}"), out);
            }
        }
    }
    let plan = &p["plan"];
    opt(has(plan, "relations"), "Plan.relations", out);
    for r in plan.get("relations").and_then(|r| r.as_array()).into_iter().flatten() {
        out.insert(format!("problem:RelationType::{}", r["type"].as_str().unwrap_or("?")));
        opt(has(r, "shiftIndex"), "Relation.shiftIndex", out);
    }
    opt(has(plan, "clustering"), "Plan.clustering", out);
    if let Some(c) = plan.get("clustering").filter(|c| !c.is_null()) {
        out.insert(format!("problem:Clustering::{}", c["type"].as_str().unwrap_or("?")));
        out.insert(format!("problem:VicinityVisitPolicy::{}", c["visiting"].as_str().unwrap_or("?")));
        out.insert(format!("problem:VicinityServingPolicy::{}", c["serving"]["type"].as_str().unwrap_or("?")));
        opt(has(c, "filtering"), "Clustering.filtering", out);
        for key in ["minSharedTime", "smallestTimeWindow", "maxJobsPerCluster"] {
            opt(has(&c["threshold"], key), &format!("VicinityThresholdPolicy.{key}"), out);
        }
        opt(has(&c["profile"], "scale"), "VehicleProfile.scale", out);
    }
    let fleet = &p["fleet"];
    for v in fleet["vehicles"].as_array().into_iter().flatten() {
        opt(has(&v["costs"], "fixed"), "VehicleCosts.fixed", out);
        opt(has(&v["profile"], "scale"), "VehicleProfile.scale", out);
        opt(has(v, "skills"), "VehicleType.skills", out);
        opt(has(v, "limits"), "VehicleType.limits", out);
        if let Some(l) = v.get("limits").filter(|l| !l.is_null()) {
            for key in ["maxDistance", "maxDuration", "tourSize"] {
                opt(has(l, key), &format!("VehicleLimits.{key}"), out);
            }
            if has(l, "shiftTime") {
                out.insert("problem:VehicleLimits.shiftTime(alias)".into());
            }
        }
        for s in v["shifts"].as_array().into_iter().flatten() {
            opt(has(&s["start"], "latest"), "ShiftStart.latest", out);
            cover_location("problem:", &s["start"]["location"], out);
            opt(has(s, "end"), "VehicleShift.end", out);
            if let Some(e) = s.get("end").filter(|e| !e.is_null()) {
                opt(has(e, "earliest"), "ShiftEnd.earliest", out);
            }
            opt(has(s, "breaks"), "VehicleShift.breaks", out);
            for b in s.get("breaks").and_then(|b| b.as_array()).into_iter().flatten() {
                if b.get("places").is_some() {
                    out.insert("problem:VehicleBreak::Optional".into());
                    let first_is_string = b["time"].get(0).is_some_and(|x| x.is_string());
                    out.insert(format!("problem:VehicleOptionalBreakTime::{}", if first_is_string { "TimeWindow" } else { "TimeOffset" }));
                    match b.get("policy").and_then(|x| x.as_str()) {
                        Some(pol) => out.insert(format!("problem:VehicleOptionalBreakPolicy::{pol}")),
                        None => out.insert("problem:VehicleBreak.policy:absent".into()),
                    };
                    for bp in b["places"].as_array().into_iter().flatten() {
                        opt(has(bp, "location"), "VehicleOptionalBreakPlace.location", out);
                        opt(has(bp, "tag"), "VehicleOptionalBreakPlace.tag", out);
                    }
                } else {
                    out.insert("problem:VehicleBreak::Required".into());
                    out.insert(format!("problem:VehicleRequiredBreakTime::{}", if b["time"]["earliest"].is_string() { "ExactTime" } else { "OffsetTime" }));
                }
            }
            opt(has(s, "reloads"), "VehicleShift.reloads", out);
            for r in s.get("reloads").and_then(|b| b.as_array()).into_iter().flatten() {
                for key in ["times", "tag", "resourceId"] {
                    opt(has(r, key), &format!("VehicleReload.{key}"), out);
                }
            }
            opt(has(s, "recharges"), "VehicleShift.recharges", out);
        }
    }
    for pr in fleet["profiles"].as_array().into_iter().flatten() {
        opt(has(pr, "speed"), "MatrixProfile.speed", out);
    }
    opt(has(fleet, "resources"), "Fleet.resources", out);
    for r in fleet.get("resources").and_then(|r| r.as_array()).into_iter().flatten() {
        out.insert(format!("problem:VehicleResource::{}", r["type"].as_str().unwrap_or("?")));
    }
    opt(has(p, "objectives"), "Problem.objectives", out);
    for o in p.get("objectives").and_then(|o| o.as_array()).into_iter().flatten() {
        cover_objective(o, out);
    }
}

fn problem_floor() -> Vec<String> {
    let mut f: Vec<String> = Vec::new();
    for k in ["any", "sequence", "strict"] {
        f.push(format!("RelationType::{k}"));
    }
    for k in ["return", "continue"] {
        f.push(format!("VicinityVisitPolicy::{k}"));
    }
    for k in ["original", "multiplier", "fixed"] {
        f.push(format!("VicinityServingPolicy::{k}"));
    }
    f.push("Clustering::vicinity".into());
    for k in ["TimeWindow", "TimeOffset"] {
        f.push(format!("VehicleOptionalBreakTime::{k}"));
    }
    for k in ["ExactTime", "OffsetTime"] {
        f.push(format!("VehicleRequiredBreakTime::{k}"));
    }
    for k in ["Optional", "Required"] {
        f.push(format!("VehicleBreak::{k}"));
    }
    for k in ["skip-if-no-intersection", "skip-if-arrival-before-end"] {
        f.push(format!("VehicleOptionalBreakPolicy::{k}"));
    }
    f.push("VehicleBreak.policy:absent".into());
    f.push("VehicleResource::reload".into());
    for k in OBJECTIVES.iter() {
        f.push(format!("Objective::{k}"));
    }
    f.push("Objective::multi-objective".into());
    for k in ["sum", "weighted-sum"] {
        f.push(format!("MultiStrategy::{k}"));
    }
    for k in ["Coordinate", "Reference", "Custom"] {
        f.push(format!("Location::{k}"));
    }
    // optional fields: present and absent
    for k in [
        "Relation.shiftIndex", "JobSkills.allOf", "JobSkills.oneOf", "JobSkills.noneOf", "JobPlace.times", "JobPlace.tag", "JobTask.demand", "JobTask.order", "Job.pickups", "Job.deliveries",
        "Job.replacements", "Job.services", "Job.skills", "Job.value", "Job.group", "Job.compatibility", "Plan.relations", "Plan.clustering", "Clustering.filtering",
        "VicinityThresholdPolicy.minSharedTime", "VicinityThresholdPolicy.smallestTimeWindow", "VicinityThresholdPolicy.maxJobsPerCluster", "VehicleCosts.fixed", "ShiftStart.latest",
        "VehicleShift.end", "ShiftEnd.earliest", "VehicleShift.breaks", "VehicleShift.reloads", "VehicleShift.recharges", "VehicleReload.times", "VehicleReload.tag", "VehicleReload.resourceId",
        "VehicleLimits.maxDistance", "VehicleLimits.maxDuration", "VehicleLimits.tourSize", "VehicleOptionalBreakPlace.location", "VehicleOptionalBreakPlace.tag", "VehicleType.skills",
        "VehicleType.limits", "VehicleProfile.scale", "MatrixProfile.speed", "Fleet.resources", "Problem.objectives",
    ] {
        f.push(k.to_string());
        f.push(format!("{k}:absent"));
    }
    f.push("VehicleLimits.shiftTime(alias)".into());
    f.push("Objective::maximize-value.breaks".into());
    f.push("Objective::minimize-unassigned.breaks".into());
    f.into_iter().map(|k| format!("problem:{k}")).collect()
}

// ------------------------------------------------------------------------------------------------
// matrices

fn mutate_matrix(rng: &mut Rng, m: &mut Value) -> bool {
    let mut alias = false;
    let Some(o) = m.as_object_mut() else { return false };
    if rng.chance(0.35) {
        o.remove("profile");
    }
    if rng.chance(0.4) {
        o.insert("timestamp".into(), json!(some_time(rng)));
    }
    let n = o.get("distances").and_then(|d| d.as_array()).map_or(0, |d| d.len());
    if rng.chance(0.4) {
        o.insert("errorCodes".into(), json!((0..n).map(|_| if rng.chance(0.1) { rng.range_i64(1, 3) } else { 0 }).collect::<Vec<_>>()));
    } else if rng.chance(0.3) {
        o.remove("errorCodes");
    }
    if rng.chance(0.3) {
        for key in ["travelTimes", "distances"] {
            if let Some(a) = o.get_mut(key).and_then(|a| a.as_array_mut()) {
                for x in a.iter_mut() {
                    if rng.chance(0.05) {
                        *x = json!(*rng.pick(&[i64::MAX, i64::MIN, -1, 0, 9_007_199_254_740_993, 1 << 40]));
                    }
                }
            }
        }
    }
    if rng.chance(0.3) {
        // `durations` is the code-level alias of `travelTimes`
        if let Some(t) = o.remove("travelTimes") {
            o.insert("durations".into(), t);
            alias = true;
        }
    }
    alias
}

fn canonical_matrix(m: &Value) -> Option<Value> {
    let mut q = m.clone();
    let o = q.as_object_mut()?;
    let t = o.remove("durations")?;
    o.insert("travelTimes".into(), t);
    Some(q)
}

fn cover_matrix(m: &Value, out: &mut BTreeSet<String>) {
    for key in ["profile", "timestamp", "errorCodes"] {
        out.insert(format!("matrix:Matrix.{key}{}", if has(m, key) { "" } else { ":absent" }));
    }
    out.insert(format!("matrix:Matrix.{}", if m.get("durations").is_some() { "durations(alias)" } else { "travelTimes" }));
}

fn matrix_floor() -> Vec<String> {
    let mut f = vec!["matrix:Matrix.durations(alias)".to_string(), "matrix:Matrix.travelTimes".to_string()];
    for key in ["profile", "timestamp", "errorCodes"] {
        f.push(format!("matrix:Matrix.{key}"));
        f.push(format!("matrix:Matrix.{key}:absent"));
    }
    f
}

// ------------------------------------------------------------------------------------------------
// synthetic solutions (assembled from the documented solution format; structure only, not feasibility)

fn some_interval(rng: &mut Rng, a: &str, b: &str) -> Value {
    let mut m = Map::new();
    m.insert(a.into(), json!(some_time(rng)));
    m.insert(b.into(), json!(some_time(rng)));
    Value::Object(m)
}

fn some_statistic(rng: &mut Rng) -> Value {
    let mut times = Map::new();
    times.insert("driving".into(), json!(rng.range_i64(0, 100_000)));
    times.insert("serving".into(), json!(rng.range_i64(0, 100_000)));
    times.insert("waiting".into(), json!(rng.range_i64(0, 100_000)));
    times.insert("break".into(), json!(rng.range_i64(0, 10_000)));
    // `commuting`/`parking` are only used with vicinity clustering (documented) and may be missing in a document
    if rng.chance(0.6) {
        times.insert("commuting".into(), json!(rng.range_i64(0, 1000)));
    }
    if rng.chance(0.6) {
        times.insert("parking".into(), json!(rng.range_i64(0, 1000)));
    }
    json!({"cost": rng.range_i64(0, 1_000_000) as f64 / 16.0, "distance": *rng.pick(&[0i64, 17, 123_456, i64::MAX]), "duration": rng.range_i64(0, 1_000_000), "times": times})
}

fn some_commute_info(rng: &mut Rng) -> Value {
    json!({"location": some_location(rng), "distance": rng.range_i64(0, 5000) as f64 / 4.0, "time": some_interval(rng, "start", "end")})
}

fn some_activity(rng: &mut Rng, transit: bool) -> Value {
    let ty = if transit { "break" } else { *rng.pick(&["departure", "arrival", "pickup", "delivery", "replacement", "service", "break", "reload", "recharge"]) };
    let job_id = match ty {
        "pickup" | "delivery" | "replacement" | "service" => format!("job{}", rng.usize_below(50)),
        _ => ty.to_string(),
    };
    let mut a = Map::new();
    a.insert("jobId".into(), json!(job_id));
    a.insert("type".into(), json!(ty));
    if !transit && rng.chance(0.5) {
        a.insert("location".into(), some_location(rng));
    }
    if rng.chance(0.6) {
        a.insert("time".into(), some_interval(rng, "start", "end"));
    }
    if rng.chance(0.4) {
        a.insert("jobTag".into(), json!(format!("t{}", rng.usize_below(99))));
    }
    if !transit && rng.chance(0.3) {
        let mut c = Map::new();
        if rng.chance(0.6) {
            c.insert("forward".into(), some_commute_info(rng));
        }
        if rng.chance(0.6) {
            c.insert("backward".into(), some_commute_info(rng));
        }
        a.insert("commute".into(), Value::Object(c));
    }
    Value::Object(a)
}

fn some_stop(rng: &mut Rng, dims: usize) -> Value {
    let load: Vec<i64> = (0..dims).map(|_| *rng.pick(&[0i64, 1, 5, 100, i32::MAX as i64])).collect();
    if rng.chance(0.2) {
        // a transit stop (required break while travelling): no location, no distance
        json!({"time": some_interval(rng, "arrival", "departure"), "load": load, "activities": [some_activity(rng, true)]})
    } else {
        let n = rng.range_usize(1, 3);
        let mut s = Map::new();
        s.insert("location".into(), some_location(rng));
        s.insert("time".into(), some_interval(rng, "arrival", "departure"));
        s.insert("distance".into(), json!(rng.range_i64(0, 1_000_000)));
        s.insert("load".into(), json!(load));
        if rng.chance(0.25) {
            s.insert("parking".into(), some_interval(rng, "start", "end"));
        }
        s.insert("activities".into(), Value::Array((0..n).map(|_| some_activity(rng, false)).collect()));
        Value::Object(s)
    }
}

fn some_metrics(rng: &mut Rng) -> Value {
    let n = rng.range_usize(0, 3);
    let evolution: Vec<Value> = (0..n)
        .map(|g| {
            let k = rng.range_usize(0, 3);
            let individuals: Vec<Value> = (0..k).map(|_| json!({"difference": rng.f64() * 100.0, "fitness": (0..rng.range_usize(1, 3)).map(|_| rng.f64() * 1000.0).collect::<Vec<_>>()})).collect();
            json!({"number": g, "timestamp": rng.f64() * 10.0, "iAllRatio": rng.f64(), "i1000Ratio": rng.f64(), "isImprovement": rng.chance(0.5), "population": {"individuals": individuals}})
        })
        .collect();
    json!({"duration": rng.range_usize(0, 300), "generations": rng.range_usize(0, 3000), "speed": rng.f64() * 500.0, "evolution": evolution})
}

fn some_features(rng: &mut Rng) -> Value {
    let n = rng.range_usize(0, 4);
    let feats: Vec<Value> = (0..n)
        .map(|i| {
            let geometry = if rng.chance(0.5) {
                json!({"type": "Point", "coordinates": [13.0 + rng.f64(), 52.0 + rng.f64()]})
            } else {
                let k = rng.range_usize(0, 4);
                json!({"type": "LineString", "coordinates": (0..k).map(|_| json!([13.0 + rng.f64(), 52.0 + rng.f64()])).collect::<Vec<_>>()})
            };
            json!({"type": "Feature", "properties": {"tour_idx": i.to_string(), "marker-color": "#e6194b", "jobs_ids": "job1,job2"}, "geometry": geometry})
        })
        .collect();
    json!({"type": "FeatureCollection", "features": feats})
}

/// `documented_violation`: exactly the break violation object docs/concepts/pragmatic/solution/violations.md prints.
/// Otherwise generated violations in the documented spelling (`vehicleId`, `shiftIndex`) or, for a share of the
/// documents, in the old snake_case spelling (`vehicle_id`, `shift_index`) which is still accepted as an alias.
fn some_solution(rng: &mut Rng, documented_violation: bool) -> Value {
    let dims = rng.range_usize(0, 3);
    let n_tours = rng.range_usize(0, 3);
    let tours: Vec<Value> = (0..n_tours)
        .map(|t| {
            let n_stops = rng.range_usize(1, 5);
            let mut tour = Map::new();
            tour.insert("vehicleId".into(), json!(format!("v{t}_0")));
            tour.insert("typeId".into(), json!(format!("type{t}")));
            // the shift index has a serde default: older documents without it are accepted
            if rng.chance(0.7) {
                tour.insert("shiftIndex".into(), json!(rng.usize_below(3)));
            }
            tour.insert("stops".into(), Value::Array((0..n_stops).map(|_| some_stop(rng, dims)).collect()));
            tour.insert("statistic".into(), some_statistic(rng));
            Value::Object(tour)
        })
        .collect();
    let mut s = Map::new();
    s.insert("statistic".into(), some_statistic(rng));
    s.insert("tours".into(), Value::Array(tours));
    if rng.chance(0.6) {
        let n = rng.range_usize(0, 3);
        let un: Vec<Value> = (0..n)
            .map(|i| {
                let k = rng.range_usize(0, 3);
                let reasons: Vec<Value> = (0..k)
                    .map(|_| {
                        let mut r = Map::new();
                        r.insert("code".into(), json!(*rng.pick(&["NO_REASON_FOUND", "SKILL_CONSTRAINT", "TIME_WINDOW_CONSTRAINT", "CAPACITY_CONSTRAINT", "MY_CODE"])));
                        r.insert("description".into(), json!("cannot be assigned: \"quoted\" \\ text / ünicode \u{1F69A}"));
                        if rng.chance(0.5) {
                            let d = rng.range_usize(0, 3);
                            r.insert("details".into(), Value::Array((0..d).map(|x| json!({"vehicleId": format!("v{x}_0"), "shiftIndex": rng.usize_below(2)})).collect()));
                        }
                        Value::Object(r)
                    })
                    .collect();
                json!({"jobId": format!("job{i}"), "reasons": reasons})
            })
            .collect();
        s.insert("unassigned".into(), Value::Array(un));
    }
    if documented_violation {
        s.insert("violations".into(), json!([{"type": "break", "vehicleId": "my_vehicle_id", "shiftIndex": 0}]));
    } else if rng.chance(0.5) {
        let n = rng.range_usize(0, 2);
        let (vk, sk) = if rng.chance(0.25) { ("vehicle_id", "shift_index") } else { ("vehicleId", "shiftIndex") };
        s.insert(
            "violations".into(),
            Value::Array(
                (0..n)
                    .map(|i| {
                        let mut v = Map::new();
                        v.insert("type".into(), json!("break"));
                        v.insert(vk.into(), json!(format!("v{i}_0")));
                        v.insert(sk.into(), json!(rng.usize_below(2)));
                        Value::Object(v)
                    })
                    .collect(),
            ),
        );
    }
    if rng.chance(0.6) {
        let mut e = Map::new();
        if rng.chance(0.6) {
            e.insert("metrics".into(), some_metrics(rng));
        }
        if rng.chance(0.6) {
            e.insert("features".into(), some_features(rng));
        }
        s.insert("extras".into(), Value::Object(e));
    }
    let mut v = Value::Object(s);
    hostile_walk(rng, &mut v, 0.1);
    v
}

/// Renames the code-level aliases of the solution model to the canonical field names
/// (`violations[].vehicle_id` → `vehicleId`, `violations[].shift_index` → `shiftIndex`).
fn canonical_solution(s: &Value) -> Option<Value> {
    let mut q = s.clone();
    let mut any = false;
    for v in q.get_mut("violations").and_then(|v| v.as_array_mut()).into_iter().flatten() {
        let Some(o) = v.as_object_mut() else { continue };
        for (old, new) in [("vehicle_id", "vehicleId"), ("shift_index", "shiftIndex")] {
            if let Some(x) = o.remove(old) {
                o.insert(new.into(), x);
                any = true;
            }
        }
    }
    any.then_some(q)
}

fn cover_solution(s: &Value, out: &mut BTreeSet<String>) {
    let opt = |cond: bool, name: &str, out: &mut BTreeSet<String>| {
        out.insert(format!("solution:{name}{}", if cond { "" } else { ":absent" }));
    };
    let timing = |t: &Value, out: &mut BTreeSet<String>| {
        for key in ["commuting", "parking"] {
            out.insert(format!("solution:Timing.{key}{}", if has(t, key) { "" } else { ":absent(default)" }));
        }
    };
    timing(&s["statistic"]["times"], out);
    for t in s["tours"].as_array().into_iter().flatten() {
        out.insert(format!("solution:Tour.shiftIndex{}", if has(t, "shiftIndex") { "" } else { ":absent(default)" }));
        timing(&t["statistic"]["times"], out);
        for stop in t["stops"].as_array().into_iter().flatten() {
            if stop.get("location").is_some() {
                out.insert("solution:Stop::Point".into());
                cover_location("solution:", &stop["location"], out);
                opt(has(stop, "parking"), "PointStop.parking", out);
            } else {
                out.insert("solution:Stop::Transit".into());
            }
            for a in stop["activities"].as_array().into_iter().flatten() {
                for key in ["location", "time", "jobTag", "commute"] {
                    opt(has(a, key), &format!("Activity.{key}"), out);
                }
                out.insert(format!("solution:activity-type:{}", a["type"].as_str().unwrap_or("?")));
                if let Some(c) = a.get("commute").filter(|c| !c.is_null()) {
                    for key in ["forward", "backward"] {
                        opt(has(c, key), &format!("Commute.{key}"), out);
                    }
                }
            }
        }
    }
    opt(has(s, "unassigned"), "Solution.unassigned", out);
    for u in s.get("unassigned").and_then(|u| u.as_array()).into_iter().flatten() {
        for r in u["reasons"].as_array().into_iter().flatten() {
            opt(has(r, "details"), "UnassignedJobReason.details", out);
        }
    }
    opt(has(s, "violations"), "Solution.violations", out);
    for v in s.get("violations").and_then(|u| u.as_array()).into_iter().flatten() {
        out.insert(format!("solution:Violation::{}", v["type"].as_str().unwrap_or("?")));
        out.insert(format!("solution:Violation.{}", if v.get("vehicle_id").is_some() { "vehicle_id/shift_index(alias)" } else { "vehicleId/shiftIndex" }));
    }
    opt(has(s, "extras"), "Solution.extras", out);
    if let Some(e) = s.get("extras").filter(|e| !e.is_null()) {
        opt(has(e, "metrics"), "Extras.metrics", out);
        opt(has(e, "features"), "Extras.features", out);
        for f in e.get("features").and_then(|f| f.get("features")).and_then(|f| f.as_array()).into_iter().flatten() {
            out.insert(format!("solution:Geometry::{}", f["geometry"]["type"].as_str().unwrap_or("?")));
        }
    }
}

fn solution_floor() -> Vec<String> {
    let mut f: Vec<String> = vec![
        "Stop::Point", "Stop::Transit", "Violation::break", "Geometry::Point", "Geometry::LineString", "Location::Coordinate", "Location::Reference", "Location::Custom",
        "Violation.vehicleId/shiftIndex", "Violation.vehicle_id/shift_index(alias)", "Tour.shiftIndex", "Tour.shiftIndex:absent(default)", "Timing.commuting", "Timing.commuting:absent(default)", "Timing.parking", "Timing.parking:absent(default)",
    ]
    .into_iter()
    .map(String::from)
    .collect();
    for k in [
        "Activity.location", "Activity.time", "Activity.jobTag", "Activity.commute", "Commute.forward", "Commute.backward", "PointStop.parking", "UnassignedJobReason.details",
        "Solution.unassigned", "Solution.violations", "Solution.extras", "Extras.metrics", "Extras.features",
    ] {
        f.push(k.to_string());
        f.push(format!("{k}:absent"));
    }
    f.into_iter().map(|k| format!("solution:{k}")).collect()
}

static DOC_SAMPLES: std::sync::atomic::AtomicU64 = std::sync::atomic::AtomicU64::new(0);
static CSV_SAMPLES: std::sync::atomic::AtomicU64 = std::sync::atomic::AtomicU64::new(0);

fn observe_cover(run: &Run, cov: &BTreeSet<String>) {
    for k in cov.iter() {
        run.observe("covered", k);
    }
}

fn to_text(rng: &mut Rng, v: &Value) -> String {
    if rng.chance(0.3) { serde_json::to_string_pretty(v).unwrap() } else { serde_json::to_string(v).unwrap() }
}

/// One case of the document workload: a G1 problem, its extension, its matrices and synthetic solutions.
fn doc_case(run: &Run, case_seed: u64) {
    let mut rng = Rng::new(case_seed);
    let mut cfg = GenCfg { min_jobs: 3, max_jobs: *rng.pick(&[6usize, 12, 25]), ..GenCfg::default() };
    cfg.p_required_breaks = 0.3;
    cfg.p_recharge = 0.3;
    cfg.p_clustering = 0.3;
    cfg.p_multi_places = 0.5;
    cfg.p_skills = 0.5;
    cfg.p_groups = 0.4;
    cfg.p_compat = 0.4;
    cfg.p_order = 0.4;
    cfg.p_values = 0.4;
    cfg.p_limits = 0.5;
    cfg.p_breaks = 0.5;
    cfg.p_unreachable = 0.3;
    cfg.always_tag = rng.chance(0.7);
    let gp = generate(&mut rng, &cfg);
    let mut all_held = true;
    let mut cov = BTreeSet::new();

    // (a) the plain G1 document: every field must survive the first hop
    cover_problem(&gp.problem, &mut cov);
    let spec = DocSpec { kind: Kind::Problem, origin: "g1".into(), text: to_text(&mut rng, &gp.problem), canonical: None, from_serialiser: false, case_seed };
    all_held &= roundtrip_doc(run, &spec);

    // (b) the extended document
    let mut ext = gp.problem.clone();
    extend_problem(&mut rng, &mut ext);
    cover_problem(&ext, &mut cov);
    let canonical = canonical_problem(&ext).map(|c| serde_json::to_string(&c).unwrap());
    let spec = DocSpec { kind: Kind::Problem, origin: "g1+ext".into(), text: to_text(&mut rng, &ext), canonical, from_serialiser: false, case_seed };
    all_held &= roundtrip_doc(run, &spec);

    // (c) matrices: as generated and mutated
    for m in gp.matrices.iter() {
        cover_matrix(m, &mut cov);
        let spec = DocSpec { kind: Kind::Matrix, origin: "g1".into(), text: to_text(&mut rng, m), canonical: None, from_serialiser: false, case_seed };
        all_held &= roundtrip_doc(run, &spec);
        let mut mm = m.clone();
        mutate_matrix(&mut rng, &mut mm);
        cover_matrix(&mm, &mut cov);
        let canonical = canonical_matrix(&mm).map(|c| serde_json::to_string(&c).unwrap());
        let spec = DocSpec { kind: Kind::Matrix, origin: "g1+ext".into(), text: to_text(&mut rng, &mm), canonical, from_serialiser: false, case_seed };
        all_held &= roundtrip_doc(run, &spec);
    }

    // (d) synthetic solutions
    for _ in 0..2 {
        let s = some_solution(&mut rng, false);
        cover_solution(&s, &mut cov);
        let canonical = canonical_solution(&s).map(|c| serde_json::to_string(&c).unwrap());
        let spec = DocSpec { kind: Kind::Solution, origin: "synthetic".into(), text: to_text(&mut rng, &s), canonical, from_serialiser: false, case_seed };
        all_held &= roundtrip_doc(run, &spec);
    }
    if rng.chance(0.1) {
        // the violation object exactly as the documentation prints it
        let s = some_solution(&mut rng, true);
        cover_solution(&s, &mut cov);
        let spec = DocSpec { kind: Kind::Solution, origin: "synthetic-documented-violation".into(), text: to_text(&mut rng, &s), canonical: None, from_serialiser: false, case_seed };
        all_held &= roundtrip_doc(run, &spec);
    }
    observe_cover(run, &cov);
    if all_held {
        // distinct by the set of model features the documents of this case exercised
        let key: Vec<&String> = cov.iter().collect();
        run.nontrivial(&format!("doc|{key:?}"));
    }
    if run.wants_sample() && rng.chance(0.02) && DOC_SAMPLES.fetch_add(1, std::sync::atomic::Ordering::Relaxed) == 0 {
        run.sample(json!({"phase": "documents", "case_seed": case_seed, "g1_shape": gp.shape(), "model_features_in_case": cov.len(),
            "extended_problem_excerpt": {"objectives": ext.get("objectives"), "first_vehicle_limits": ext["fleet"]["vehicles"][0].get("limits"), "first_shift_breaks": ext["fleet"]["vehicles"][0]["shifts"][0].get("breaks")}}));
    }
}

// =================================================================================================
// clause (2): a solver-written solution is read back as the initial solution

const JOB_KINDS: [&str; 4] = ["pickup", "delivery", "replacement", "service"];

#[derive(Clone, Debug)]
struct ExpAct {
    job: String,
    kind: String,
    loc: usize,
    tag: Option<String>,
    interval: (i64, i64),
    /// tags `(place index, tag)` of the task the activity belongs to; `None` = not decidable from the documents
    task_tags: Option<Vec<(usize, String)>>,
    /// acceptable place indices (empty = not decidable)
    places: Vec<usize>,
    /// several places of the task share the activity's location
    siblings: bool,
    multi_place: bool,
    /// time windows of every place of the resolved task
    windows: Vec<Vec<(i64, i64)>>,
    /// the reported interval (duration, window) fits a sibling place at the same location but not the tagged one
    interval_disagrees: bool,
}

impl ExpAct {
    fn to_json(&self) -> Value {
        json!({"job": self.job, "kind": self.kind, "location": self.loc, "tag": self.tag, "place_candidates": self.places, "sibling_places_same_location": self.siblings})
    }
}

#[derive(Clone, Debug)]
struct ActAct {
    job: String,
    kind: String,
    tags: Vec<(usize, String)>,
    place_idx: usize,
    loc: usize,
    window: (f64, f64),
}

impl ActAct {
    fn to_json(&self) -> Value {
        json!({"job": self.job, "kind": self.kind, "location": self.loc, "place_idx": self.place_idx, "task_tags": self.tags, "window": [fmt_time(self.window.0.min(4.0e9) as i64), fmt_time(self.window.1.min(4.0e9) as i64)]})
    }
}

type TourKey = (String, usize);

fn interval_of(v: &Value, a: &str, b: &str) -> Option<(i64, i64)> {
    Some((v.get(a)?.as_str().and_then(parse_time)?, v.get(b)?.as_str().and_then(parse_time)?))
}

/// Expected customer activities per vehicle shift and the unassigned ids, from the solution JSON only.
fn expected_from_solution(sol: &Value) -> Result<(Vec<(TourKey, Vec<ExpAct>)>, BTreeSet<String>, BTreeSet<String>), String> {
    let mut tours = Vec::new();
    let mut features = BTreeSet::new();
    for t in sol["tours"].as_array().ok_or("solution.tours missing")? {
        let key = (t["vehicleId"].as_str().ok_or("vehicleId")?.to_string(), t["shiftIndex"].as_u64().unwrap_or(0) as usize);
        let mut acts = Vec::new();
        let mut specials: BTreeSet<(String, String, String)> = BTreeSet::new();
        for stop in t["stops"].as_array().ok_or("stops")? {
            if stop.get("location").is_none() {
                features.insert("transit-stop".to_string());
            }
            let stop_time = interval_of(&stop["time"], "arrival", "departure").ok_or("stop time")?;
            for a in stop["activities"].as_array().ok_or("activities")? {
                let ty = a["type"].as_str().ok_or("activity type")?;
                if a.get("commute").is_some_and(|c| !c.is_null()) {
                    features.insert("commute".to_string());
                }
                if !JOB_KINDS.contains(&ty) {
                    features.insert(format!("special:{ty}"));
                    if matches!(ty, "break" | "reload" | "recharge") {
                        let loc = a.get("location").filter(|l| !l.is_null()).or_else(|| stop.get("location")).map(|l| l.to_string()).unwrap_or_default();
                        if !specials.insert((ty.to_string(), a.get("jobTag").map(|t| t.to_string()).unwrap_or_default(), loc)) {
                            features.insert("special-used-twice-in-tour".to_string());
                        }
                    }
                    continue;
                }
                let loc = a.get("location").filter(|l| !l.is_null()).or_else(|| stop.get("location")).and_then(|l| l.get("index")).and_then(|i| i.as_u64()).ok_or("job activity without index location")? as usize;
                let interval = match a.get("time").filter(|t| !t.is_null()) {
                    Some(t) => interval_of(t, "start", "end").ok_or("activity time")?,
                    None => stop_time,
                };
                acts.push(ExpAct {
                    job: a["jobId"].as_str().ok_or("jobId")?.to_string(),
                    kind: ty.to_string(),
                    loc,
                    tag: a.get("jobTag").and_then(|t| t.as_str()).map(String::from),
                    interval,
                    task_tags: None,
                    places: vec![],
                    siblings: false,
                    multi_place: false,
                    windows: vec![],
                    interval_disagrees: false,
                });
            }
        }
        tours.push((key, acts));
    }
    let mut unassigned = BTreeSet::new();
    for u in sol.get("unassigned").and_then(|u| u.as_array()).into_iter().flatten() {
        unassigned.insert(u["jobId"].as_str().ok_or("unassigned.jobId")?.to_string());
    }
    Ok((tours, unassigned, features))
}

/// Resolves task and place of an expected activity against the problem JSON (O1's own parser):
/// tag → task and place; location → places of that task; the reported interval refines sibling places sharing the location.
fn resolve(pp: &PProblem, act: &mut ExpAct) -> Result<(), String> {
    let ji = *pp.job_index.get(&act.job).ok_or_else(|| format!("job '{}' of the solution is not in the problem", act.job))?;
    let job = &pp.jobs[ji];
    let tasks: Vec<&vverif::replay::PTask> = job.tasks.iter().filter(|t| t.kind.as_str() == act.kind).collect();
    if tasks.is_empty() {
        return Err(format!("job '{}' has no {} task", act.job, act.kind));
    }
    let cands: Vec<&&vverif::replay::PTask> = match act.tag.as_ref() {
        Some(tag) => tasks.iter().filter(|t| t.places.iter().any(|p| p.tag.as_ref() == Some(tag))).collect(),
        None => tasks.iter().filter(|t| t.places.iter().any(|p| p.loc == act.loc && p.tag.is_none())).collect(),
    };
    if cands.is_empty() {
        return Err(format!("{} of '{}' at location {} with tag {:?}: no task of the problem has such a place", act.kind, act.job, act.loc, act.tag));
    }
    if cands.len() > 1 {
        return Ok(()); // not decidable without unique tags (outside the FP guard)
    }
    let task = cands[0];
    act.task_tags = Some(task.places.iter().enumerate().filter_map(|(i, p)| p.tag.clone().map(|t| (i, t))).collect());
    act.multi_place = task.places.len() > 1;
    act.windows = task.places.iter().map(|p| p.times.clone()).collect();
    let at_loc: Vec<usize> = task.places.iter().enumerate().filter(|(_, p)| p.loc == act.loc).map(|(i, _)| i).collect();
    if at_loc.is_empty() {
        return Err(format!("{} of '{}' is reported at location {} where the task (tag {:?}) has no place", act.kind, act.job, act.loc, act.tag));
    }
    act.siblings = at_loc.len() > 1;
    let (s, e) = act.interval;
    let consistent: Vec<usize> = at_loc
        .iter()
        .copied()
        .filter(|i| {
            let p = &task.places[*i];
            (e - s) as f64 == p.duration && (p.times.is_empty() || p.times.iter().any(|w| w.0 <= s && s <= w.1))
        })
        .collect();
    match act.tag.as_ref() {
        // the tag names the place the solver used (the writer takes it from the activity's place index)
        Some(tag) => {
            let Some(i) = task.places.iter().position(|p| p.tag.as_ref() == Some(tag)) else { return Ok(()) };
            if task.places[i].loc != act.loc {
                return Err(format!("{} of '{}' is reported at location {} but its tag {tag:?} names a place at location {}", act.kind, act.job, act.loc, task.places[i].loc));
            }
            act.interval_disagrees = !consistent.is_empty() && !consistent.contains(&i);
            act.places = vec![i];
        }
        // untagged: any untagged place at that location; the reported interval refines siblings
        None => {
            let untagged: Vec<usize> = at_loc.iter().copied().filter(|i| task.places[*i].tag.is_none()).collect();
            let refined: Vec<usize> = untagged.iter().copied().filter(|i| consistent.contains(i)).collect();
            act.places = if refined.is_empty() { untagged } else { refined };
        }
    }
    Ok(())
}

fn actual_from_core(problem_jobs: &PProblem, sol: &vrp_core::models::Solution) -> (Vec<(TourKey, Vec<ActAct>)>, BTreeSet<String>, usize) {
    let mut tours = Vec::new();
    let mut specials = 0;
    for route in sol.routes.iter() {
        let d = &route.actor.vehicle.dimens;
        let key = (d.get_vehicle_id().cloned().unwrap_or_default(), d.get_shift_index().copied().unwrap_or(usize::MAX));
        let mut acts = Vec::new();
        for a in route.tour.all_activities() {
            let Some(single) = a.job.as_ref() else { continue };
            let kind = single.dimens.get_job_type().cloned().unwrap_or_default();
            if !JOB_KINDS.contains(&kind.as_str()) {
                specials += 1;
                continue;
            }
            let job = a.retrieve_job().and_then(|j| j.dimens().get_job_id().cloned()).unwrap_or_default();
            acts.push(ActAct { job, kind, tags: single.dimens.get_place_tags().cloned().unwrap_or_default(), place_idx: a.place.idx, loc: a.place.location, window: (a.place.time.start, a.place.time.end) });
        }
        tours.push((key, acts));
    }
    let unassigned = sol.unassigned.iter().filter_map(|(job, _)| job.dimens().get_job_id().cloned()).filter(|id| problem_jobs.job_index.contains_key(id)).collect();
    (tours, unassigned, specials)
}

fn read_error_class(msg: &str) -> String {
    for (needle, class) in [
        ("transit property in initial solution is not yet supported", "transit-not-supported"),
        ("commute property in initial solution is not supported", "commute-not-supported"),
        ("cannot match job", "cannot-match-job"),
        ("cannot match activity", "cannot-match-activity"),
        ("cannot match '", "cannot-match-special"),
        ("cannot check multi job without unique tags", "multi-job-without-unique-tags"),
        ("potential double assignment", "double-assignment"),
        ("cannot find vehicle", "cannot-find-vehicle"),
        ("cannot deserialize solution", "cannot-deserialize"),
        ("unknown job id", "unknown-job-id"),
        ("cannot get location", "cannot-get-location"),
        ("cannot get job id for", "unknown-unassigned-job"),
        ("cannot get reason", "unassigned-without-reason"),
        ("unknown activity type", "unknown-activity-type"),
        ("empty tour", "empty-tour"),
    ] {
        if msg.contains(needle) {
            return class.to_string();
        }
    }
    msg.chars().filter(|c| c.is_ascii_alphabetic() || *c == ' ').collect::<String>().split_whitespace().take(6).collect::<Vec<_>>().join("-")
}

/// Does the job named in a reader message have a task with two places at one location?
fn job_has_sibling_places(pp: &PProblem, msg: &str) -> bool {
    let id = msg.split('\'').nth(1).unwrap_or("");
    pp.job_index.get(id).is_some_and(|j| {
        pp.jobs[*j].tasks.iter().any(|t| {
            let mut locs = BTreeSet::new();
            t.places.iter().any(|p| !locs.insert(p.loc))
        })
    })
}

/// Context of a "cannot match 'break' for 'vehicle'" message: does the vehicle have an optional break whose places
/// share a location (or have none), or a break with an offset time?
fn special_ctx(pp: &PProblem, solution: &Value, msg: &str) -> &'static str {
    let mut parts = msg.split('\'');
    let (ty, vid) = (parts.nth(1).unwrap_or(""), parts.nth(1).unwrap_or(""));
    if ty != "break" {
        return "plain";
    }
    let Some(v) = pp.vehicle_of(vid) else { return "plain" };
    if v.shifts.iter().any(|s| s.required_breaks > 0) {
        return "required-break";
    }
    let sibling = v.shifts.iter().flat_map(|s| s.breaks.iter()).any(|b| {
        let mut locs = BTreeSet::new();
        b.places.iter().any(|p| !locs.insert(p.loc))
    });
    let offset = v.shifts.iter().flat_map(|s| s.breaks.iter()).any(|b| matches!(b.time, vverif::replay::BreakTime::Offset(..)));
    // an offset break in a tour whose departure stop serves activities: the stop's departure is then later than the tour's start
    let in_departure_stop = solution["tours"].as_array().into_iter().flatten().filter(|t| t["vehicleId"] == json!(vid)).any(|t| t["stops"][0]["activities"].as_array().is_some_and(|a| a.len() > 1));
    match (sibling, offset) {
        (_, true) if in_departure_stop => "offset-break-and-activities-in-departure-stop",
        (true, _) => "sibling-break-places-same-location",
        (false, true) => "break-offset-time",
        _ => "plain",
    }
}

/// Does a tour of the vehicle named by the message really report a REQUIRED break as an activity of a point stop (same
/// duration, start inside the break's earliest..latest, exact or as offset from the tour's departure)? Only then the
/// reader's missing required-break support explains a "cannot match 'break'".
fn required_break_in_point_stop(problem: &Value, solution: &Value, msg: &str) -> bool {
    let vid = msg.split('\'').nth(3).unwrap_or("");
    let Some(vehicle) = problem["fleet"]["vehicles"].as_array().into_iter().flatten().find(|v| v["vehicleIds"].as_array().is_some_and(|ids| ids.iter().any(|i| i.as_str() == Some(vid)))) else {
        return false;
    };
    for tour in solution["tours"].as_array().into_iter().flatten().filter(|t| t["vehicleId"].as_str() == Some(vid)) {
        let si = tour["shiftIndex"].as_u64().unwrap_or(0) as usize;
        let stops = tour["stops"].as_array().cloned().unwrap_or_default();
        let first = &stops.first().cloned().unwrap_or(Value::Null);
        let departures: Vec<i64> = [first["activities"][0]["time"]["end"].as_str(), first["time"]["departure"].as_str()].into_iter().flatten().filter_map(parse_time).collect();
        for br in vehicle["shifts"][si]["breaks"].as_array().into_iter().flatten().filter(|b| b.get("duration").is_some() && b.get("places").is_none()) {
            let duration = br["duration"].as_f64().unwrap_or(-1.) as i64;
            let windows: Vec<(i64, i64)> = match (&br["time"]["earliest"], &br["time"]["latest"]) {
                (Value::String(e), Value::String(l)) => parse_time(e).zip(parse_time(l)).into_iter().collect(),
                (e, l) => departures.iter().map(|d| (d + e.as_f64().unwrap_or(0.) as i64, d + l.as_f64().unwrap_or(0.) as i64)).collect(),
            };
            for stop in stops.iter().filter(|s| s.get("location").is_some()) {
                for a in stop["activities"].as_array().into_iter().flatten().filter(|a| a["type"].as_str() == Some("break")) {
                    let Some((s, e)) = interval_of(&a["time"], "start", "end").or_else(|| interval_of(&stop["time"], "arrival", "departure")) else { continue };
                    if e - s == duration && windows.iter().any(|(lo, hi)| lo - 1 <= s && s <= hi + 1) {
                        return true;
                    }
                }
            }
        }
    }
    false
}

struct InitInput<'a> {
    case_seed: u64,
    problem_json: &'a Value,
    matrices: &'a [Value],
    config: &'a Value,
    solution: &'a Value,
    solution_text: &'a str,
    shape: String,
}

fn init_artefact(inp: &InitInput, extra: Value) -> Value {
    json!({"kind": "init", "case_seed": inp.case_seed, "shape": inp.shape, "problem": inp.problem_json, "matrices": inp.matrices, "config": inp.config, "solution": inp.solution, "extra": extra})
}

/// The oracle of clause (2) on recorded documents. Returns `Some(non-trivial key)` when the case held.
fn init_check(run: &Run, inp: &InitInput, problem: Arc<CoreProblem>) -> Option<String> {
    let pp = match PProblem::parse(inp.problem_json, inp.matrices) {
        Ok(p) => p,
        Err(e) => {
            run.inconclusive(&format!("O1 parser cannot read the problem: {}", clip(&e, 60)));
            return None;
        }
    };
    let (mut exp_tours, exp_un, features) = match expected_from_solution(inp.solution) {
        Ok(x) => x,
        Err(e) => {
            run.inconclusive(&format!("solution not in documented format: {}", clip(&e, 60)));
            return None;
        }
    };
    // precondition (C02's business): every job exactly once in tours+unassigned
    {
        let mut in_tours = BTreeSet::new();
        for (_, acts) in exp_tours.iter() {
            for a in acts {
                in_tours.insert(a.job.clone());
            }
        }
        let all: BTreeSet<String> = pp.jobs.iter().map(|j| j.id.clone()).collect();
        let accounted: BTreeSet<String> = in_tours.union(&exp_un).cloned().collect();
        if accounted != all || in_tours.intersection(&exp_un).next().is_some() {
            run.inconclusive("solver output does not account for every job exactly once (C02's subject)");
            return None;
        }
    }
    // activities the writer reported without the tag of a tagged place (C03's subject) stay undecided for the place
    // comparison, but the solution must still be readable
    let mut untagged_jobs: BTreeSet<String> = BTreeSet::new();
    for (_, acts) in exp_tours.iter_mut() {
        for a in acts.iter_mut() {
            if let Err(e) = resolve(&pp, a) {
                run.observe("init_unresolved", &clip(&e.chars().filter(|c| !c.is_ascii_digit()).collect::<String>(), 70));
                if a.tag.is_none() {
                    untagged_jobs.insert(a.job.clone());
                }
            }
        }
    }

    run.eval();
    let text = inp.solution_text.to_string();
    let p2 = problem.clone();
    let read = run.guard(move || read_init_solution(BufReader::new(text.as_bytes()), p2, Arc::new(DefaultRandom::default())));
    let core = match read {
        Err(p) => {
            run.violation(&format!("C11|init-solution|panic|{}", p.file()), &format!("read_init_solution panicked on a solver-written solution: {} at {}", p.message, p.location), init_artefact(inp, p.to_json()));
            return None;
        }
        Ok(Err(e)) => {
            let msg = e.to_string();
            let class = read_error_class(&msg);
            if class == "transit-not-supported" || class == "commute-not-supported" {
                // the reader declares these two solution features unsupported: outside the property's decidable domain
                run.inconclusive(&format!("reader declares the feature unsupported: {class}"));
                return None;
            }
            if class == "double-assignment" && features.contains("special-used-twice-in-tour") && (msg.contains("_reload_") || msg.contains("_break_") || msg.contains("_recharge_")) {
                run.inconclusive("solver output uses one break/reload definition twice in a tour (C02's subject)");
                return None;
            }
            if class == "cannot-match-special" && special_ctx(&pp, inp.solution, &msg) == "required-break" && required_break_in_point_stop(inp.problem_json, inp.solution, &msg) {
                // required breaks are no jobs for the reader: the same gap it declares for transit stops
                run.inconclusive("required break reported inside a point stop (reader has no required-break support, declared for transit stops)");
                return None;
            }
            let ctx = if class == "cannot-match-special" {
                special_ctx(&pp, inp.solution, &msg)
            } else if job_has_sibling_places(&pp, &msg) {
                "sibling-places-same-location"
            } else if untagged_jobs.contains(msg.split('\'').nth(1).unwrap_or("")) {
                "tag-omitted-by-writer"
            } else if features.contains("transit-stop") || inp.shape.contains("required-breaks") {
                "required-break"
            } else {
                "plain"
            };
            run.violation(
                &format!("C11|init-solution|read-error|{class}|{ctx}"),
                &format!("read_init_solution rejects a solution written by the solver for the same problem: {}", clip(&msg, 300)),
                init_artefact(inp, json!({"error": msg})),
            );
            return None;
        }
        Ok(Ok(s)) => s,
    };
    let (act_tours, act_un, specials) = actual_from_core(&pp, &core);
    // observed, not judged (the property speaks about the unassigned *set*): how the first reason code is read back
    for u in inp.solution.get("unassigned").and_then(|u| u.as_array()).into_iter().flatten() {
        let code = u["reasons"][0]["code"].as_str().unwrap_or("?");
        let read = core.unassigned.iter().find(|(job, _)| job.dimens().get_job_id().map(|s| s.as_str()) == u["jobId"].as_str()).map(|(_, info)| match info {
            vrp_core::construction::heuristics::UnassignmentInfo::Unknown => "Unknown".to_string(),
            vrp_core::construction::heuristics::UnassignmentInfo::Simple(c) => format!("Simple({})", c.0),
            vrp_core::construction::heuristics::UnassignmentInfo::Detailed(_) => "Detailed".to_string(),
        });
        run.observe("init_unassigned_reason_read_as", &format!("{code} -> {}", read.unwrap_or_else(|| "<job not unassigned>".into())));
    }
    run.observe_n("init_solution", "special activities read (break/reload/recharge)", specials as u64);

    let mut held = true;
    let fail = |sig: &str, what: String, extra: Value| {
        run.violation(&format!("C11|init-solution|{sig}"), &clip(&what, 400), init_artefact(inp, extra));
    };
    // unassigned id set
    if act_un != exp_un {
        held = false;
        fail("unassigned-differs", format!("unassigned ids differ: solution lists {:?}, read_init_solution gives {:?}", exp_un, act_un), json!({"expected": exp_un, "actual": act_un}));
    }
    // where is every (job, kind, tag-set) on the actual side?
    let mut act_where: BTreeMap<(String, String), Vec<TourKey>> = BTreeMap::new();
    for (key, acts) in act_tours.iter() {
        for a in acts {
            act_where.entry((a.job.clone(), a.kind.clone())).or_default().push(key.clone());
        }
    }
    let act_map: BTreeMap<TourKey, &Vec<ActAct>> = act_tours.iter().map(|(k, a)| (k.clone(), a)).collect();
    let mut n_acts = 0u64;
    let mut n_multi_place = 0u64;
    let mut n_siblings = 0u64;
    let mut n_tagged = 0u64;
    let mut n_multi_task = 0u64;
    let mut n_windows = 0u64;
    let empty: Vec<ActAct> = vec![];
    for (key, exp) in exp_tours.iter() {
        let act = act_map.get(key).copied().unwrap_or(&empty);
        let dump = || json!({"tour": {"vehicleId": key.0, "shiftIndex": key.1}, "expected": exp.iter().map(|a| a.to_json()).collect::<Vec<_>>(), "actual": act.iter().map(|a| a.to_json()).collect::<Vec<_>>()});
        let exp_seq: Vec<(&str, &str)> = exp.iter().map(|a| (a.job.as_str(), a.kind.as_str())).collect();
        let act_seq: Vec<(&str, &str)> = act.iter().map(|a| (a.job.as_str(), a.kind.as_str())).collect();
        if exp_seq != act_seq {
            held = false;
            let mut es = exp_seq.clone();
            let mut as_ = act_seq.clone();
            es.sort();
            as_.sort();
            if es == as_ {
                fail("order-differs", format!("tour {key:?}: same activities in another order: expected {exp_seq:?}, read {act_seq:?}"), dump());
            } else if let Some(missing) = exp_seq.iter().find(|x| !as_.contains(x)) {
                let elsewhere = act_where.get(&(missing.0.to_string(), missing.1.to_string())).is_some_and(|w| w.iter().any(|k| k != key));
                if elsewhere {
                    fail("vehicle-differs", format!("tour {key:?}: {} of '{}' was read into another vehicle shift {:?}", missing.1, missing.0, act_where.get(&(missing.0.to_string(), missing.1.to_string()))), dump());
                } else {
                    fail("job-missing", format!("tour {key:?}: {} of '{}' is in the solution but not in the tour read back (expected {} activities, read {})", missing.1, missing.0, exp_seq.len(), act_seq.len()), dump());
                }
            } else {
                fail("job-extra", format!("tour {key:?}: read back {} activities, the solution has {}: {act_seq:?} vs {exp_seq:?}", act_seq.len(), exp_seq.len()), dump());
            }
            continue;
        }
        for (e, a) in exp.iter().zip(act.iter()) {
            n_acts += 1;
            n_multi_place += e.multi_place as u64;
            n_siblings += e.siblings as u64;
            n_tagged += e.tag.is_some() as u64;
            if e.interval_disagrees {
                run.observe("init_solution", "tagged place and reported interval disagree (C03's subject, not judged)");
            }
            n_multi_task += pp.job_index.get(&e.job).is_some_and(|j| pp.jobs[*j].tasks.len() > 1) as u64;
            // sparse place tags: served at a tagged place whose position in the task's tag list differs from its place index
            if let (Some(tags), Some(tag)) = (e.task_tags.as_ref(), e.tag.as_ref()) {
                if tags.iter().position(|(_, t)| t == tag).zip(tags.iter().find(|(_, t)| t == tag).map(|(i, _)| *i)).is_some_and(|(pos, idx)| pos != idx) {
                    run.observe("init_solution", "activities at a tagged place behind an untagged one (sparse tags)");
                }
            }
            if e.loc != a.loc {
                held = false;
                fail("location-differs", format!("tour {key:?}: {} of '{}' is at location {} in the solution and at {} after read_init_solution", e.kind, e.job, e.loc, a.loc), dump());
                break;
            }
            if let Some(tags) = e.task_tags.as_ref() {
                if *tags != a.tags {
                    held = false;
                    fail("task-differs", format!("tour {key:?}: {} of '{}' with tag {:?} belongs to the task with place tags {:?}, read_init_solution matched the task with place tags {:?}", e.kind, e.job, e.tag, tags, a.tags), dump());
                    break;
                }
                if !e.places.is_empty() && !e.places.contains(&a.place_idx) {
                    held = false;
                    let cls = if e.siblings { "sibling-places-same-location" } else { "distinct-locations" };
                    fail(
                        &format!("place-differs|{cls}"),
                        format!("tour {key:?}: {} of '{}' (tag {:?}, location {}, interval {}..{}) was served at place index {:?} of its task, read_init_solution reconstructs place index {}", e.kind, e.job, e.tag, e.loc, fmt_time(e.interval.0), fmt_time(e.interval.1), e.places, a.place_idx),
                        dump(),
                    );
                    break;
                }
                // the window of that place in which the service started
                if let Some(wins) = e.windows.get(a.place_idx).filter(|w| !w.is_empty()) {
                    let (s0, e0) = e.interval;
                    if let Some(w) = wins.iter().find(|w| w.0 <= s0 && s0 <= w.1) {
                        n_windows += 1;
                        if (w.0 as f64, w.1 as f64) != a.window {
                            held = false;
                            let hit = wins.iter().filter(|w| w.0 <= e0 && s0 <= w.1).count();
                            let cls = if hit > 1 { "interval-intersects-two-windows" } else { "other" };
                            fail(
                                &format!("window-differs|{cls}"),
                                format!("tour {key:?}: {} of '{}' started {} inside the window {}..{} of place {}, read_init_solution reconstructs the window {}..{}", e.kind, e.job, fmt_time(s0), fmt_time(w.0), fmt_time(w.1), a.place_idx, fmt_time(a.window.0.min(4.0e9) as i64), fmt_time(a.window.1.min(4.0e9) as i64)),
                                dump(),
                            );
                            break;
                        }
                    }
                }
            } else {
                run.observe("init_solution", "activities whose task is not decidable from the documents");
            }
        }
    }
    // tours that exist only on the actual side
    let exp_keys: BTreeSet<&TourKey> = exp_tours.iter().map(|(k, _)| k).collect();
    for (key, acts) in act_tours.iter() {
        if !exp_keys.contains(key) && !acts.is_empty() {
            held = false;
            fail("vehicle-differs", format!("read_init_solution produced a tour for {key:?} with {} customer activities which the solution does not have", acts.len()), json!({"tour": {"vehicleId": key.0, "shiftIndex": key.1}}));
        }
    }
    run.observe_n("init_solution", "tours compared", exp_tours.len() as u64);
    run.observe_n("init_solution", "customer activities compared", n_acts);
    run.observe_n("init_solution", "activities of multi-place tasks", n_multi_place);
    run.observe_n("init_solution", "activities of multi-task jobs", n_multi_task);
    run.observe_n("init_solution", "activities with a tag", n_tagged);
    run.observe_n("init_solution", "activities whose task has sibling places at the same location", n_siblings);
    run.observe_n("init_solution", "activity time windows compared", n_windows);
    run.observe_n("init_solution", "unassigned ids compared", exp_un.len() as u64);
    for f in features.iter() {
        run.observe("init_solution_features", f);
    }
    if run.wants_sample() && n_multi_place > 0 && held {
        if let Some((key, exp)) = exp_tours.iter().find(|(_, a)| a.iter().any(|x| x.multi_place)) {
            let act = act_map.get(key).copied().unwrap_or(&empty);
            run.sample(json!({"phase": "init-solution", "case_seed": inp.case_seed, "problem_shape": inp.shape, "tour": {"vehicleId": key.0, "shiftIndex": key.1},
                "expected_from_solution_json": exp.iter().map(|a| a.to_json()).collect::<Vec<_>>(), "read_init_solution": act.iter().map(|a| a.to_json()).collect::<Vec<_>>(), "unassigned": exp_un}));
        }
    }
    if held && n_acts >= 2 && (n_multi_place > 0 || n_multi_task > 0 || !exp_un.is_empty()) { Some(inp.shape.clone()) } else { None }
}

/// Puts a second task of some multi-task jobs at the location of the first one (a legitimate scenario: load and unload
/// at one site): then only the tags tell the tasks apart. An index is only given up when it stays used elsewhere.
fn colocate_tasks(rng: &mut Rng, problem: &mut Value) -> bool {
    fn count(v: &Value, out: &mut BTreeMap<u64, usize>) {
        match v {
            Value::Object(m) => {
                if let Some(i) = m.get("index").and_then(|i| i.as_u64()) {
                    *out.entry(i).or_default() += 1;
                }
                m.values().for_each(|x| count(x, out));
            }
            Value::Array(a) => a.iter().for_each(|x| count(x, out)),
            _ => {}
        }
    }
    let mut uses = BTreeMap::new();
    count(problem, &mut uses);
    let mut any = false;
    for job in problem["plan"]["jobs"].as_array_mut().into_iter().flatten() {
        let mut first: Option<u64> = None;
        for key in ["pickups", "deliveries", "replacements", "services"] {
            for task in job.get_mut(key).and_then(|t| t.as_array_mut()).into_iter().flatten() {
                let Some(places) = task.get_mut("places").and_then(|p| p.as_array_mut()) else { continue };
                if places.len() != 1 {
                    continue;
                }
                let Some(idx) = places[0]["location"]["index"].as_u64() else { continue };
                match first {
                    None => first = Some(idx),
                    Some(f) if f != idx && uses.get(&idx).copied().unwrap_or(0) >= 2 && places[0].get("tag").is_some() && rng.chance(0.3) => {
                        places[0]["location"] = json!({"index": f});
                        *uses.entry(idx).or_default() -= 1;
                        *uses.entry(f).or_default() += 1;
                        any = true;
                    }
                    _ => {}
                }
            }
        }
    }
    any
}

/// Removes the tag from some places of multi-place tasks / optional breaks, so that the place tags of a task become a
/// SPARSE list (place index, tag). Stays inside what the documentation and the reader ask for: only single-task jobs
/// (the hint in jobs.md asks for a tag on each place of mixed jobs), at least one tag is kept, and a tag is dropped only
/// from a place whose location no other place of the task shares (an untagged place is then identified by its location).
fn sparsify_tags(rng: &mut Rng, problem: &mut Value) -> bool {
    fn sparsify(rng: &mut Rng, places: &mut Vec<Value>) -> bool {
        let n = places.len();
        if n < 2 || !places.iter().all(|p| p.get("tag").is_some_and(|t| t.is_string())) || !rng.chance(0.6) {
            return false;
        }
        let locs: Vec<Option<String>> = places.iter().map(|p| p.get("location").filter(|l| !l.is_null()).map(|l| l.to_string())).collect();
        let droppable: Vec<usize> = (0..n).filter(|i| locs[*i].is_some() && (0..n).all(|j| j == *i || locs[j] != locs[*i])).collect();
        if droppable.is_empty() {
            return false;
        }
        // keep one tag, preferably not on the first place: an untagged place in front of a tagged one is the interesting layout
        let keep = if n > 1 && rng.chance(0.7) { rng.range_usize(1, n - 1) } else { rng.usize_below(n) };
        let mut any = false;
        for i in droppable {
            if i != keep && (i < keep || rng.chance(0.5)) {
                places[i].as_object_mut().map(|o| o.remove("tag"));
                any = true;
            }
        }
        any
    }
    let mut any = false;
    for job in problem["plan"]["jobs"].as_array_mut().into_iter().flatten() {
        let n_tasks: usize = ["pickups", "deliveries", "replacements", "services"].iter().map(|k| job.get(*k).and_then(|t| t.as_array()).map_or(0, |t| t.len())).sum();
        if n_tasks != 1 {
            continue;
        }
        for key in ["pickups", "deliveries", "replacements", "services"] {
            for task in job.get_mut(key).and_then(|t| t.as_array_mut()).into_iter().flatten() {
                if let Some(places) = task.get_mut("places").and_then(|p| p.as_array_mut()) {
                    any |= sparsify(rng, places);
                }
            }
        }
    }
    for vehicle in problem["fleet"]["vehicles"].as_array_mut().into_iter().flatten() {
        for shift in vehicle.get_mut("shifts").and_then(|s| s.as_array_mut()).into_iter().flatten() {
            for br in shift.get_mut("breaks").and_then(|b| b.as_array_mut()).into_iter().flatten() {
                if let Some(places) = br.get_mut("places").and_then(|p| p.as_array_mut()) {
                    any |= sparsify(rng, places);
                }
            }
        }
    }
    any
}

fn init_case(run: &Run, case_seed: u64) {
    let mut rng = Rng::new(case_seed);
    let mut cfg = GenCfg { min_jobs: 5, max_jobs: *rng.pick(&[8usize, 15, 30]), ..GenCfg::default() };
    cfg.p_multi_places = 0.6;
    cfg.p_multi_jobs = 0.9;
    cfg.p_breaks = 0.4;
    cfg.p_recharge = 0.08;
    cfg.p_required_breaks = 0.15;
    cfg.p_clustering = 0.04;
    cfg.always_tag = true;
    let mut gp: PragProblem = generate(&mut rng, &cfg);
    if colocate_tasks(&mut rng, &mut gp.problem) {
        gp.features.insert("colocated-tasks".into());
    }
    if rng.chance(0.6) && sparsify_tags(&mut rng, &mut gp.problem) {
        gp.features.insert("sparse-place-tags".into());
    }
    let max_gens = run.by_tier(20usize, 60usize);
    let (config, shape) = if rng.chance(0.3) { (simple_config(rng.range_usize(1, max_gens), 1, 2), Default::default()) } else { gen_config(&mut rng, max_gens, None) };
    let problem = match read_problem(&gp) {
        ReadOutcome::Ok(p) => p,
        ReadOutcome::Err(codes, text) => {
            run.inconclusive(&format!("generated problem rejected by reader: {codes:?}"));
            if std::env::var("C11_DEBUG").is_ok() {
                eprintln!("REJECTED seed={case_seed} {} [{}]", clip(&text, 300), gp.shape());
            }
            return;
        }
        ReadOutcome::Panic(_) => {
            run.inconclusive("reader panic (C01/C10's subject)");
            return;
        }
    };
    let text = match solve_with_config(problem.clone(), &config) {
        SolveOutcome::Ok(t) => t,
        SolveOutcome::Err(_) => {
            run.inconclusive("solver error (C01's subject)");
            return;
        }
        SolveOutcome::Panic(_) => {
            run.inconclusive("solver panic (C01's subject)");
            return;
        }
    };
    // clause (1) on real solver output: the text is the serialiser's own output
    let spec = DocSpec { kind: Kind::Solution, origin: "solver".into(), text: text.clone(), canonical: None, from_serialiser: true, case_seed };
    roundtrip_doc(run, &spec);
    let Ok(solution) = serde_json::from_str::<Value>(&text) else {
        run.inconclusive("solver output is not JSON");
        return;
    };
    let mut cov = BTreeSet::new();
    cover_solution(&solution, &mut cov);
    observe_cover(run, &cov.iter().map(|k| k.replace("solution:", "solver-solution:")).collect());
    for f in gp.features.iter() {
        run.observe("init_problem_features", f);
    }
    run.observe("init_config", &shape.key());
    let inp = InitInput { case_seed, problem_json: &gp.problem, matrices: &gp.matrices, config: &config, solution: &solution, solution_text: &text, shape: gp.shape() };
    if let Some(key) = init_check(run, &inp, problem) {
        run.nontrivial(&format!("init|{key}|{}", shape.key()));
    }
}

// =================================================================================================
// clause (3): CSV import

#[derive(Clone, Debug)]
struct JobRow {
    id: String,
    lat: f64,
    lng: f64,
    demand: i32,
    duration: u64,
    tw: Option<(String, String)>,
}

#[derive(Clone, Debug)]
struct VehRow {
    id: String,
    lat: f64,
    lng: f64,
    capacity: i32,
    tw_start: String,
    tw_end: String,
    amount: usize,
    profile: String,
}

fn csv_field(s: &str) -> String {
    if s.contains([',', '"', '\n', '\r']) { format!("\"{}\"", s.replace('"', "\"\"")) } else { s.to_string() }
}

fn csv_time(rng: &mut Rng, off: i64) -> String {
    match rng.usize_below(8) {
        0 => format!("{}+02:00", fmt_off(off + 7200).trim_end_matches('Z')),
        1 => format!("{}-03:00", fmt_off(off - 10_800).trim_end_matches('Z')),
        _ => fmt_off(off),
    }
}

fn csv_coord(rng: &mut Rng, base: f64) -> f64 {
    match rng.usize_below(4) {
        0 => base + rng.f64() * 0.2,                                       // full precision
        1 => ((base + rng.f64() * 0.2) * 1e4).round() / 1e4,               // 4 decimals as in the documented example
        2 => ((base + rng.f64() * 0.2) * 1e6).round() / 1e6,
        _ => (base + rng.f64() * 0.2) as f32 as f64,
    }
}

fn gen_tables(rng: &mut Rng) -> (Vec<JobRow>, Vec<VehRow>) {
    let id_style = rng.usize_below(5);
    let job_id = |k: usize| match id_style {
        0 => format!("job {k}"),
        1 => format!("job,{k}"),
        2 => format!("j\"{k}\""),
        3 => format!("jöb_{k}"),
        _ => format!("job{k}"),
    };
    let n_jobs = rng.range_usize(1, 12);
    let mut rows = Vec::new();
    for k in 0..n_jobs {
        let id = job_id(k);
        let d = rng.range_i64(1, 9) as i32;
        let demands: Vec<i32> = match rng.usize_below(10) {
            0..=2 => vec![-d],
            3..=4 => vec![d],
            5 => vec![0],
            6 => vec![d, -d],
            7 => {
                let d2 = rng.range_i64(1, 5) as i32;
                vec![d, d2, -(d + d2)]
            }
            8 => vec![-d, 0],
            _ => vec![-d, -rng.range_i64(1, 5) as i32],
        };
        for demand in demands {
            let tw = if rng.chance(0.5) {
                let s = rng.range_i64(0, 40_000);
                let e = s + rng.range_i64(1, 40_000);
                Some((csv_time(rng, s), csv_time(rng, e)))
            } else {
                None
            };
            rows.push(JobRow { id: id.clone(), lat: csv_coord(rng, 52.4), lng: csv_coord(rng, 13.3), demand, duration: *rng.pick(&[0u64, 1, 3, 5, 180, 300, 3600, 86_400]), tw });
        }
    }
    if rng.chance(0.3) {
        // rows of one job need not be adjacent
        rng.shuffle(&mut rows);
    }
    let n_veh = rng.range_usize(1, 4);
    let pool: &[&str] = if rng.chance(0.5) { &["car", "truck", "bike", "van"] } else { &["car", "truck"] };
    let mut profiles: Vec<&str> = pool.to_vec();
    rng.shuffle(&mut profiles);
    let share = rng.chance(0.5);
    let vehicles: Vec<VehRow> = (0..n_veh)
        .map(|k| {
            let s = rng.range_i64(0, 20_000);
            let e = s + rng.range_i64(3600, 90_000);
            VehRow {
                id: match id_style {
                    1 => format!("vehicle,{k}"),
                    _ => format!("vehicle{}", k + 1),
                },
                lat: csv_coord(rng, 52.4),
                lng: csv_coord(rng, 13.3),
                capacity: *rng.pick(&[0i32, 1, 10, 40, 50, 1000, i32::MAX]),
                tw_start: csv_time(rng, s),
                tw_end: csv_time(rng, e),
                amount: rng.range_usize(1, 5),
                profile: if share { rng.pick(&profiles).to_string() } else { profiles[k % profiles.len()].to_string() },
            }
        })
        .collect();
    (rows, vehicles)
}

fn tables_to_csv(rng: &mut Rng, jobs: &[JobRow], vehicles: &[VehRow]) -> (String, String) {
    let mut j = String::from("ID,LAT,LNG,DEMAND,DURATION,TW_START,TW_END\n");
    let lines: Vec<String> = jobs
        .iter()
        .map(|r| {
            let (s, e) = r.tw.clone().unwrap_or_default();
            format!("{},{},{},{},{},{},{}", csv_field(&r.id), r.lat, r.lng, r.demand, r.duration, s, e)
        })
        .collect();
    j.push_str(&lines.join("\n"));
    if rng.chance(0.5) {
        j.push('\n');
    }
    let mut v = String::from("ID,LAT,LNG,CAPACITY,TW_START,TW_END,AMOUNT,PROFILE\n");
    let lines: Vec<String> = vehicles.iter().map(|r| format!("{},{},{},{},{},{},{},{}", csv_field(&r.id), r.lat, r.lng, r.capacity, r.tw_start, r.tw_end, r.amount, csv_field(&r.profile))).collect();
    v.push_str(&lines.join("\n"));
    if rng.chance(0.5) {
        v.push('\n');
    }
    (j, v)
}

fn num_is(j: Option<&J>, expected: &str) -> bool {
    j.and_then(|n| n.num()).is_some_and(|n| num_distance(n, expected).is_some_and(|d| d <= MAX_ULP))
}

fn coord_is(loc: Option<&J>, lat: f64, lng: f64) -> bool {
    loc.is_some_and(|l| num_is(l.get("lat"), &format!("{lat:?}")) && num_is(l.get("lng"), &format!("{lng:?}")))
}

/// Compares the imported problem (own JSON reader over the serialised text) with the tables. `Err((field, detail))`.
fn compare_import(doc: &J, jobs: &[JobRow], vehicles: &[VehRow]) -> Result<(), (String, String)> {
    let bad = |f: &str, d: String| Err((f.to_string(), d));
    // ---- jobs
    let mut by_id: BTreeMap<&str, Vec<&JobRow>> = BTreeMap::new();
    for r in jobs {
        by_id.entry(r.id.as_str()).or_default().push(r);
    }
    let pjobs = doc.get("plan").and_then(|p| p.get("jobs")).map(|j| j.arr()).unwrap_or(&[]);
    let ids: Vec<&str> = pjobs.iter().filter_map(|j| j.get("id").and_then(|i| i.str())).collect();
    let id_set: BTreeSet<&str> = ids.iter().copied().collect();
    if ids.len() != id_set.len() || id_set != by_id.keys().copied().collect() {
        return bad("job-ids", format!("table ids {:?}, imported ids {:?}", by_id.keys().collect::<Vec<_>>(), ids));
    }
    for pj in pjobs {
        let id = pj.get("id").and_then(|i| i.str()).unwrap_or("");
        let rows = &by_id[id];
        for (key, sign) in [("pickups", 1), ("deliveries", -1), ("services", 0)] {
            let mut want: Vec<&&JobRow> = rows.iter().filter(|r| r.demand.signum() == sign).collect();
            let tasks = pj.get(key).map(|t| t.arr()).unwrap_or(&[]);
            if tasks.len() != want.len() {
                return bad("task-kind", format!("job '{id}': table has {} row(s) for {key} (demand sign {sign}), import has {}", want.len(), tasks.len()));
            }
            for t in tasks {
                let places = t.get("places").map(|p| p.arr()).unwrap_or(&[]);
                if places.len() != 1 {
                    return bad("places", format!("job '{id}' {key}: {} places", places.len()));
                }
                let p = &places[0];
                // find the table row this task carries (multiset matching)
                let pos = want.iter().position(|r| {
                    let demand_ok = if sign == 0 { t.get("demand").is_none() } else { t.get("demand").map(|d| d.arr()).is_some_and(|d| d.len() == 1 && num_is(d.first(), &r.demand.unsigned_abs().to_string())) };
                    let tw_ok = match (&r.tw, p.get("times")) {
                        (None, None) => true,
                        (Some((s, e)), Some(times)) => times.arr().len() == 1 && times.arr()[0].arr().len() == 2 && times.arr()[0].arr()[0].str() == Some(s) && times.arr()[0].arr()[1].str() == Some(e),
                        _ => false,
                    };
                    demand_ok && tw_ok && coord_is(p.get("location"), r.lat, r.lng) && num_is(p.get("duration"), &r.duration.to_string()) && p.get("tag").is_none()
                });
                match pos {
                    Some(i) => {
                        want.remove(i);
                    }
                    None => {
                        // name the first differing field against the closest row for the signature
                        let r = want[0];
                        let field = if !coord_is(p.get("location"), r.lat, r.lng) {
                            "coordinates"
                        } else if !num_is(p.get("duration"), &r.duration.to_string()) {
                            "duration"
                        } else if sign != 0 && !t.get("demand").map(|d| d.arr()).is_some_and(|d| d.len() == 1 && num_is(d.first(), &r.demand.unsigned_abs().to_string())) {
                            "demand"
                        } else {
                            "time-window"
                        };
                        return bad(field, format!("job '{id}' {key}: imported task {{location {}, duration {}, demand {}, times {}}} matches no table row; e.g. row {:?}", p.get("location").map_or("-".into(), |x| format!("{x:?}")), p.get("duration").map_or("-".into(), |x| x.brief()), t.get("demand").map_or("-".into(), |x| format!("{x:?}")), p.get("times").map_or("-".into(), |x| format!("{x:?}")), r));
                    }
                }
            }
        }
        for key in ["replacements", "skills", "value", "group", "compatibility"] {
            if pj.get(key).is_some() {
                return bad("extra-job-data", format!("job '{id}' carries '{key}' which no table column defines"));
            }
        }
    }
    // ---- vehicles
    let types = doc.get("fleet").and_then(|p| p.get("vehicles")).map(|j| j.arr()).unwrap_or(&[]);
    let type_ids: Vec<&str> = types.iter().filter_map(|j| j.get("typeId").and_then(|i| i.str())).collect();
    let want_ids: Vec<&str> = vehicles.iter().map(|v| v.id.as_str()).collect();
    if type_ids.iter().collect::<BTreeSet<_>>() != want_ids.iter().collect::<BTreeSet<_>>() || type_ids.len() != want_ids.len() {
        return bad("vehicle-type-ids", format!("table ids {want_ids:?}, imported typeIds {type_ids:?}"));
    }
    for t in types {
        let id = t.get("typeId").and_then(|i| i.str()).unwrap_or("");
        let r = vehicles.iter().find(|v| v.id == id).unwrap();
        let cap = t.get("capacity").map(|c| c.arr()).unwrap_or(&[]);
        if cap.len() != 1 || !num_is(cap.first(), &r.capacity.to_string()) {
            return bad("capacity", format!("vehicle '{id}': table capacity {}, imported {:?}", r.capacity, cap));
        }
        let n_ids = t.get("vehicleIds").map(|c| c.arr().len()).unwrap_or(0);
        if n_ids != r.amount {
            return bad("amount", format!("vehicle '{id}': table amount {}, imported {} vehicle ids", r.amount, n_ids));
        }
        if t.get("profile").and_then(|p| p.get("matrix")).and_then(|m| m.str()) != Some(r.profile.as_str()) {
            return bad("profile", format!("vehicle '{id}': table profile {:?}, imported {:?}", r.profile, t.get("profile")));
        }
        let shifts = t.get("shifts").map(|c| c.arr()).unwrap_or(&[]);
        if shifts.len() != 1 {
            return bad("shifts", format!("vehicle '{id}': {} shifts", shifts.len()));
        }
        let s = &shifts[0];
        let start = s.get("start");
        let end = s.get("end");
        if start.and_then(|x| x.get("earliest")).and_then(|x| x.str()) != Some(r.tw_start.as_str()) {
            return bad("shift-start-time", format!("vehicle '{id}': table TW_START {}, imported {:?}", r.tw_start, start));
        }
        if end.and_then(|x| x.get("latest")).and_then(|x| x.str()) != Some(r.tw_end.as_str()) {
            return bad("shift-end-time", format!("vehicle '{id}': table TW_END {}, imported {:?}", r.tw_end, end));
        }
        if !coord_is(start.and_then(|x| x.get("location")), r.lat, r.lng) || !coord_is(end.and_then(|x| x.get("location")), r.lat, r.lng) {
            return bad("depot-coordinates", format!("vehicle '{id}': table depot ({}, {}), imported start {:?} end {:?}", r.lat, r.lng, start.and_then(|x| x.get("location")), end.and_then(|x| x.get("location"))));
        }
        for key in ["breaks", "reloads", "recharges"] {
            if s.get(key).is_some() {
                return bad("extra-vehicle-data", format!("vehicle '{id}' shift carries '{key}' which no table column defines"));
            }
        }
        for key in ["skills", "limits"] {
            if t.get(key).is_some() {
                return bad("extra-vehicle-data", format!("vehicle '{id}' carries '{key}' which no table column defines"));
            }
        }
    }
    let names: Vec<&str> = doc.get("fleet").and_then(|p| p.get("profiles")).map(|j| j.arr()).unwrap_or(&[]).iter().filter_map(|p| p.get("name").and_then(|n| n.str())).collect();
    let want: BTreeSet<&str> = vehicles.iter().map(|v| v.profile.as_str()).collect();
    if names.len() != want.len() || names.iter().copied().collect::<BTreeSet<_>>() != want {
        return bad("fleet-profiles", format!("table profiles {want:?}, imported fleet.profiles {names:?}"));
    }
    Ok(())
}

fn csv_case(run: &Run, case_seed: u64, solve_some: bool) {
    let mut rng = Rng::new(case_seed);
    let (jobs, vehicles) = gen_tables(&mut rng);
    let (jobs_csv, vehicles_csv) = tables_to_csv(&mut rng, &jobs, &vehicles);
    let use_import = rng.chance(0.5);
    let artefact = |extra: Value| json!({"kind": "csv", "case_seed": case_seed, "jobs_csv": jobs_csv, "vehicles_csv": vehicles_csv, "extra": extra});
    run.eval();
    run.observe("csv_api", if use_import { "import_problem(\"csv\")" } else { "read_csv_problem" });
    run.observe_n("csv_rows", "job rows", jobs.len() as u64);
    run.observe_n("csv_rows", "vehicle rows", vehicles.len() as u64);
    for r in jobs.iter() {
        run.observe("csv_rows", match r.demand.signum() {
            1 => "job rows: pickup (demand > 0)",
            -1 => "job rows: delivery (demand < 0)",
            _ => "job rows: service (demand = 0)",
        });
        if r.tw.is_some() {
            run.observe("csv_rows", "job rows with time window");
        }
    }
    let multi_row_ids = jobs.iter().filter(|r| jobs.iter().filter(|q| q.id == r.id).count() > 1).map(|r| r.id.clone()).collect::<BTreeSet<_>>().len();
    run.observe_n("csv_rows", "job ids given on several rows", multi_row_ids as u64);
    let share = vehicles.iter().enumerate().any(|(i, v)| vehicles.iter().skip(i + 1).any(|w| w.profile == v.profile));
    let ctx = if share { "rows-share-profile" } else { "distinct-profiles" };
    run.observe("csv_vehicle_tables", ctx);

    let (jc, vc) = (jobs_csv.clone(), vehicles_csv.clone());
    let imported = run.guard(move || {
        if use_import {
            vrp_cli::extensions::import::import_problem("csv", Some(vec![BufReader::new(jc.as_bytes()), BufReader::new(vc.as_bytes())])).map_err(|e| e.to_string())
        } else {
            vrp_cli::extensions::import::read_csv_problem(BufReader::new(jc.as_bytes()), BufReader::new(vc.as_bytes())).map_err(|e| e.to_string())
        }
    });
    let problem = match imported {
        Err(p) => {
            run.violation(&format!("C11|csv|panic|{}", p.file()), &format!("csv import panicked on documented tables: {} at {}", p.message, p.location), artefact(p.to_json()));
            return;
        }
        Ok(Err(e)) => {
            run.violation("C11|csv|import-error", &format!("csv import rejects tables following the documentation: {}", clip(&e, 300)), artefact(json!({"error": e})));
            return;
        }
        Ok(Ok(p)) => p,
    };
    let mut w = BufWriter::new(Vec::new());
    let text = match serialize_problem(&problem, &mut w).map_err(|e| e.to_string()).and_then(|_| into_text(w)) {
        Ok(t) => t,
        Err(e) => {
            run.violation("C11|csv|serialise-error", &format!("imported problem cannot be serialised: {e}"), artefact(json!({"error": e})));
            return;
        }
    };
    let doc = match j_parse(&text) {
        Ok(d) => d,
        Err(e) => {
            run.violation("C11|csv|output-not-json", &format!("serialised import is not JSON: {e}"), artefact(json!({"text": text})));
            return;
        }
    };
    let mut held = true;
    if let Err((field, detail)) = compare_import(&doc, &jobs, &vehicles) {
        held = false;
        run.violation(&format!("C11|csv|data-differs|{field}"), &format!("imported problem does not carry the tables' data: {}", clip(&detail, 400)), artefact(json!({"field": field, "detail": detail, "imported": text})));
    }
    // the import must be a valid problem
    let core = match read_problem_texts(&text, &[]) {
        ReadOutcome::Ok(p) => Some(p),
        ReadOutcome::Err(codes, rendered) => {
            held = false;
            let mut c = codes.clone();
            c.sort();
            c.dedup();
            run.violation(&format!("C11|csv|invalid-import|{}|{ctx}", c.join("+")), &format!("problem imported from documented csv tables fails validation: {}", clip(&rendered, 300)), artefact(json!({"codes": codes, "imported": text})));
            None
        }
        ReadOutcome::Panic(p) => {
            held = false;
            run.violation(&format!("C11|csv|read-panic|{}", p.file()), &format!("reading the imported problem panicked: {} at {}", p.message, p.location), artefact(p.to_json()));
            None
        }
    };
    // the import is itself a problem document: clause (1)
    let spec = DocSpec { kind: Kind::Problem, origin: "csv-import".into(), text: text.clone(), canonical: None, from_serialiser: true, case_seed };
    roundtrip_doc(run, &spec);
    if held {
        let kinds: BTreeSet<i32> = jobs.iter().map(|r| r.demand.signum()).collect();
        if jobs.len() >= 2 {
            run.nontrivial(&format!("csv|jobs={}|rows={}|multi={}|kinds={:?}|veh={}|{ctx}", by_len(&jobs), jobs.len(), multi_row_ids, kinds, vehicles.len()));
        }
        if run.wants_sample() && multi_row_ids > 0 && rng.chance(0.2) && CSV_SAMPLES.fetch_add(1, std::sync::atomic::Ordering::Relaxed) == 0 {
            run.sample(json!({"phase": "csv", "case_seed": case_seed, "jobs_csv": jobs_csv, "vehicles_csv": vehicles_csv, "imported_first_job": serde_json::from_str::<Value>(&text).ok().map(|v| v["plan"]["jobs"][0].clone())}));
        }
    }
    // a few valid imports are solved with geojson output: real `extras.features` documents for clause (1)
    if let (Some(core), true) = (core, solve_some) {
        let mut cfg = simple_config(rng.range_usize(1, 5), 1, 2);
        cfg["output"] = json!({"includeGeojson": true});
        cfg["telemetry"] = json!({"metrics": {"enabled": true, "trackPopulation": 1}});
        if let SolveOutcome::Ok(sol) = solve_with_config(core, &cfg) {
            if let Ok(v) = serde_json::from_str::<Value>(&sol) {
                let mut cov = BTreeSet::new();
                cover_solution(&v, &mut cov);
                observe_cover(run, &cov.iter().map(|k| k.replace("solution:", "solver-solution:")).collect());
            }
            let spec = DocSpec { kind: Kind::Solution, origin: "solver+geojson".into(), text: sol, canonical: None, from_serialiser: true, case_seed };
            roundtrip_doc(run, &spec);
        }
    }
}

fn by_len(jobs: &[JobRow]) -> usize {
    jobs.iter().map(|r| r.id.as_str()).collect::<BTreeSet<_>>().len()
}

// =================================================================================================

fn replay(run: &Run, path: &std::path::Path) {
    let Ok(text) = std::fs::read_to_string(path) else {
        println!("INCONCLUSIVE cannot read {}", path.display());
        std::process::exit(2);
    };
    let doc: Value = serde_json::from_str(&text).unwrap_or(Value::Null);
    let a = &doc["artefact"];
    let case_seed = a["case_seed"].as_u64().unwrap_or(0);
    match a["kind"].as_str().unwrap_or("") {
        "doc" => {
            let spec = DocSpec {
                kind: Kind::from_name(a["doc_kind"].as_str().unwrap_or("problem")),
                origin: a["origin"].as_str().unwrap_or("replay").to_string(),
                text: a["text"].as_str().unwrap_or("").to_string(),
                canonical: a["canonical"].as_str().map(String::from),
                from_serialiser: a["from_serialiser"].as_bool().unwrap_or(false),
                case_seed,
            };
            let held = roundtrip_doc(run, &spec);
            println!("replay: recorded {} document {}", spec.kind.name(), if held { "survives the round trip" } else { "does NOT survive the round trip" });
        }
        "csv" => {
            println!("replay: re-running the csv case of seed {case_seed}");
            csv_case(run, case_seed, false);
        }
        "init" => {
            let matrices: Vec<Value> = a["matrices"].as_array().cloned().unwrap_or_default();
            let gp = PragProblem { problem: a["problem"].clone(), matrices: matrices.clone(), features: Default::default(), jobs: 0, vehicles: 0, locations: 0 };
            match read_problem(&gp) {
                ReadOutcome::Ok(problem) => {
                    let sol_text = serde_json::to_string(&a["solution"]).unwrap_or_default();
                    let inp = InitInput { case_seed, problem_json: &a["problem"], matrices: &matrices, config: &a["config"], solution: &a["solution"], solution_text: &sol_text, shape: a["shape"].as_str().unwrap_or("").to_string() };
                    let r = init_check(run, &inp, problem);
                    println!("replay: read_init_solution on the recorded documents: {}", if run.violation_count() == 0 { "no difference" } else { "difference reproduced" });
                    let _ = r;
                }
                _ => println!("replay: recorded problem cannot be read"),
            }
        }
        other => println!("replay: unknown artefact kind '{other}'"),
    }
}

fn main() {
    let run = Run::from_args(
        "C11",
        "exploration",
        "three workloads. (1) documents: per case one seeded G1 problem (3-25 jobs, all G1 features incl. required breaks, recharge, clustering) round-tripped as generated and after an extension pass \
         that adds every enum variant / optional field of format/problem/model.rs (relations, clustering policies, break variants and policies, recharges, resources, all objectives incl. multi-objective, \
         skills, limits incl. the shiftTime alias, all three location types, explicit nulls, hostile floats and integer extremes), its matrices as generated and mutated (profile/timestamp/errorCodes/durations alias, i64 extremes), \
         two synthetic solutions (transit stops, commute, parking, violations, unassigned details, metrics, geojson features, missing serde-default fields), plus every real solver output of workload 2 and geojson outputs of imported csv problems; \
         oracle: own JSON reader, ser(parse(ser(d))) == ser(d) and d ⊆ ser(parse(d)), numbers within 2 ulp. distinct = set of model features exercised by the documents of the case. \
         (2) init solution: seeded G1 problem (5-30 jobs, tagged multi-task jobs and multi-place tasks, co-located tasks, breaks, reloads, recharge) x seeded solver config -> solve -> read_init_solution; expected activity list from solution+problem JSON only. \
         non-trivial = >= 2 customer activities compared and a multi-place task, multi-task job or unassigned job involved; distinct by (problem shape, config shape). \
         (3) csv: seeded job/vehicle tables following docs/getting-started/import.md (pickup/delivery/service rows, multi-row ids, optional windows, 1-4 vehicle rows, shared and distinct profiles, quoted ids); \
         non-trivial = >= 2 job rows and import valid and equal to the tables; distinct by table shape.",
        45,
        480,
    );
    if let Some(path) = run.replay.clone() {
        replay(&run, &path);
        run.finish();
    }
    run.assume("clause 1 is decided on the serde model: extended/synthetic documents are well-formed for the model, not necessarily valid problems; documents using a code-level alias (limits.shiftTime, matrix.durations, violations[].vehicle_id/shift_index) are compared after renaming the alias to its canonical field");
    run.assume("numbers are compared from their literals: integer literals exactly, otherwise as correctly rounded f64 within 2 ulp ('to the last but one bit'); JSON null and an absent optional field are the same on the first hop");
    run.assume("clause 2: index locations with explicit matrices; only tag-disambiguated multi-task jobs / multi-place tasks (G1 always_tag) as the documentation demands; breaks/reloads/recharges and all times are not compared; \
                the solver is not seed-replayable, replay re-runs the oracle on the recorded documents");
    run.assume("clause 2: solutions with transit stops (required breaks) or commute (vicinity clustering) are declared unsupported by read_init_solution itself and counted inconclusive; solver errors/panics and C02/C03-class defects of the written solution are other properties' subjects and counted inconclusive");
    run.assume("clause 2: when several places of one task share the activity's location the place the solver used is taken from the reported interval (duration and window), falling back to 'any of them'");
    run.assume("clause 3: tables stay inside the documented domain (both or no window bound, demand balance of pickup+delivery ids, AMOUNT >= 1, unique vehicle ids, |DEMAND| < 2^31, documented column order); unassigned reason codes are observed, not asserted");

    // ---- workload 1: documents
    let doc_cases = run.by_tier(1_200u64, 12_000);
    par_for(16, doc_cases, &|| !run.has_time_frac(0.3), &|i| doc_case(&run, mix(run.seed ^ 0x0D0C, i)));

    // ---- workload 3: csv (cheap, before the solver workload so that it is never starved)
    let csv_cases = run.by_tier(600u64, 6_000);
    let solve_every = run.by_tier(8u64, 40);
    par_for(8, csv_cases, &|| !run.has_time_frac(0.45), &|i| csv_case(&run, mix(run.seed ^ 0xC5F, i), i % solve_every == 0));

    // ---- workload 2: solve + read_init_solution (few solves at a time: the solver uses rayon itself)
    let init_cases = run.by_tier(6_000u64, 60_000);
    par_for(4, init_cases, &|| !run.has_time(), &|i| init_case(&run, mix(run.seed ^ 0x1A17, i)));

    // ---- floors
    run.floor("documents round-tripped", run.observed_keys("documents").iter().map(|k| run.observed("documents", k)).sum(), run.by_tier(1000, 20_000));
    for k in ["problem:g1", "problem:g1+ext", "problem:csv-import", "matrix:g1", "matrix:g1+ext", "solution:synthetic", "solution:synthetic-documented-violation", "solution:solver", "solution:solver+geojson"] {
        run.floor(&format!("documents of class {k}"), run.observed("documents", k), 5);
    }
    for k in problem_floor().into_iter().chain(matrix_floor()).chain(solution_floor()) {
        run.floor(&format!("model feature '{k}' in a round-tripped document"), run.observed("covered", &k), 1);
    }
    for k in ["solver-solution:Stop::Point", "solver-solution:Extras.metrics", "solver-solution:Extras.features", "solver-solution:Solution.unassigned", "solver-solution:Activity.jobTag"] {
        run.floor(&format!("real solver output with '{k}'"), run.observed("covered", k), 1);
    }
    run.floor("init-solution: tours compared", run.observed("init_solution", "tours compared"), run.by_tier(60, 600));
    run.floor("init-solution: customer activities compared", run.observed("init_solution", "customer activities compared"), run.by_tier(400, 4000));
    run.floor("init-solution: activities of multi-place tasks", run.observed("init_solution", "activities of multi-place tasks"), 20);
    run.floor("init-solution: activities at a tagged place behind an untagged one", run.observed("init_solution", "activities at a tagged place behind an untagged one (sparse tags)"), 3);
    run.floor("init-solution: activities of multi-task jobs", run.observed("init_solution", "activities of multi-task jobs"), 20);
    run.floor("init-solution: unassigned ids compared", run.observed("init_solution", "unassigned ids compared"), 5);
    run.floor("csv tables imported", run.observed("csv_rows", "vehicle rows").min(run.observed("csv_api", "import_problem(\"csv\")") + run.observed("csv_api", "read_csv_problem")), run.by_tier(100, 1000));
    for k in ["job rows: pickup (demand > 0)", "job rows: delivery (demand < 0)", "job rows: service (demand = 0)", "job rows with time window", "job ids given on several rows"] {
        run.floor(&format!("csv {k}"), run.observed("csv_rows", k), 10);
    }
    for k in ["rows-share-profile", "distinct-profiles"] {
        run.floor(&format!("csv vehicle tables with {k}"), run.observed("csv_vehicle_tables", k), 10);
    }
    run.floor("distinct non-trivial cases", run.distinct_nontrivial(), 20);
    run.finish();
}
