//! C17 – embedded LKH / DBSCAN / k-medoids keep their contracts (exploration).
//!
//! The check drives the public entry points
//!   * `vrp_core::algorithms::lkh::lkh_optimize`
//!   * `vrp_core::algorithms::clustering::dbscan::create_clusters`
//!   * `vrp_core::algorithms::clustering::kmedoids::{create_kmedoids, create_hierarchical_kmedoids}`
//! on generated geometry (ties, duplicates, collinear points, tiny inputs) and judges every returned value with
//! oracles written from the property text only. Every contract clause × algorithm has its own signature.
//!
//! Termination of LKH is restated as bounded progress in logical steps: the harness's `AdjacencySpec` counts the
//! calls of `cost`/`neighbours` and aborts the call (panic with a private message) when `max(2000·n³, 200 000)`
//! is exceeded. The wall-clock watchdog can only make the run INCONCLUSIVE.

use serde::{Deserialize, Serialize};
use serde_json::{Value, json};
use std::collections::{BTreeMap, BTreeSet, HashMap, VecDeque};
use std::sync::atomic::{AtomicBool, AtomicU64, Ordering};
use std::sync::{Arc, Mutex};
use std::time::{Duration, Instant};
use vrp_core::algorithms::clustering::dbscan::create_clusters;
use vrp_core::algorithms::clustering::kmedoids::{create_hierarchical_kmedoids, create_kmedoids};
use vrp_core::algorithms::lkh::{AdjacencySpec, Cost, Edge, Node, lkh_optimize};
use vverif::{PanicInfo, Rng, Run, mix, par_for};

const BOUND_MSG: &str = "vverif-c17: logical step bound exceeded";
const UNKNOWN_NODE_MSG: &str = "vverif-c17: adjacency queried with a node that is not part of the tour";
const WATCHDOG_LIMIT: Duration = Duration::from_secs(900);
const MAX_LKH_N: usize = 40;

// ---------------------------------------------------------------------------------------------
// geometry shared by the LKH and k-medoids workloads

/// A symmetric, zero-diagonal, non-negative cost structure. Either derived from points (coordinates are
/// integers or multiples of 1/16, so the JSON form is exact) or a literal integer-valued matrix.
#[derive(Clone, Debug, Serialize, Deserialize)]
struct Geometry {
    class: String,
    /// euclid | manhattan | matrix
    metric: String,
    coords: Vec<[f64; 2]>,
    matrix: Vec<Vec<f64>>,
}

impl Geometry {
    fn n(&self) -> usize {
        if self.metric == "matrix" { self.matrix.len() } else { self.coords.len() }
    }

    fn dist_matrix(&self) -> Vec<Vec<f64>> {
        let n = self.n();
        let mut m = vec![vec![0.0f64; n]; n];
        for i in 0..n {
            for j in (i + 1)..n {
                let d = match self.metric.as_str() {
                    "matrix" => self.matrix[i][j],
                    "manhattan" => {
                        (self.coords[i][0] - self.coords[j][0]).abs() + (self.coords[i][1] - self.coords[j][1]).abs()
                    }
                    _ => {
                        let dx = self.coords[i][0] - self.coords[j][0];
                        let dy = self.coords[i][1] - self.coords[j][1];
                        (dx * dx + dy * dy).sqrt()
                    }
                };
                m[i][j] = d;
                m[j][i] = d;
            }
        }
        m
    }
}

const GEOMETRY_CLASSES: [&str; 9] = [
    "euclid-float",
    "grid-manhattan",
    "grid-euclid",
    "duplicates",
    "collinear",
    "clustered",
    "random-symmetric-int",
    "uniform",
    "all-same-point",
];

fn sixteenth(rng: &mut Rng, hi: f64) -> f64 {
    (rng.range_f64(0., hi) * 16.).floor() / 16.
}

fn gen_geometry(rng: &mut Rng, n: usize) -> Geometry {
    let weights = [3., 2.5, 2.5, 2., 2., 1.5, 2., 0.6, 0.4];
    let class = GEOMETRY_CLASSES[rng.weighted(&weights)];
    gen_geometry_of(rng, n, class)
}

fn gen_geometry_of(rng: &mut Rng, n: usize, class: &str) -> Geometry {
    let mut coords: Vec<[f64; 2]> = Vec::new();
    let mut matrix: Vec<Vec<f64>> = Vec::new();
    let mut metric = "euclid";
    match class {
        "euclid-float" => {
            for _ in 0..n {
                coords.push([sixteenth(rng, 1000.), sixteenth(rng, 1000.)]);
            }
        }
        "grid-manhattan" | "grid-euclid" => {
            if class == "grid-manhattan" {
                metric = "manhattan";
            }
            // small grids: many ties and, when the grid has fewer cells than n, duplicated points
            let g = *rng.pick(&[2i64, 3, 4, 5, 6, 8]);
            let regular = rng.chance(0.3);
            for i in 0..n {
                if regular {
                    coords.push([(i as i64 % g) as f64, (i as i64 / g) as f64]);
                } else {
                    coords.push([rng.range_i64(0, g - 1) as f64, rng.range_i64(0, g - 1) as f64]);
                }
            }
            if regular {
                rng.shuffle(&mut coords);
            }
        }
        "duplicates" => {
            let sites = rng.range_usize(1, (n / 3).max(2));
            let site_coords: Vec<[f64; 2]> =
                (0..sites).map(|_| [rng.range_i64(0, 20) as f64, rng.range_i64(0, 20) as f64]).collect();
            for _ in 0..n {
                coords.push(*rng.pick(&site_coords));
            }
        }
        "collinear" => {
            let kind = rng.usize_below(3);
            let span = (2 * n.max(1)) as i64;
            for _ in 0..n {
                let t = if kind == 2 { sixteenth(rng, span as f64) } else { rng.range_i64(0, span) as f64 };
                coords.push(match kind {
                    0 => [t, 0.],
                    1 => [t, t], // diagonal: irrational distances which are exact multiples of each other
                    _ => [t, 7.],
                });
            }
        }
        "clustered" => {
            let k = rng.range_usize(2, 4);
            let centres: Vec<[f64; 2]> =
                (0..k).map(|_| [rng.range_i64(0, 200) as f64, rng.range_i64(0, 200) as f64]).collect();
            for _ in 0..n {
                let c = *rng.pick(&centres);
                coords.push([c[0] + rng.range_i64(-3, 3) as f64, c[1] + rng.range_i64(-3, 3) as f64]);
            }
        }
        "random-symmetric-int" | "uniform" => {
            metric = "matrix";
            let r = *rng.pick(&[1i64, 2, 3, 10, 100, 1000]);
            let lo = if rng.chance(0.5) { 0 } else { 1 };
            let constant = rng.range_i64(lo, r) as f64;
            matrix = vec![vec![0.; n]; n];
            for i in 0..n {
                for j in (i + 1)..n {
                    let v = if class == "uniform" { constant } else { rng.range_i64(lo, r) as f64 };
                    matrix[i][j] = v;
                    matrix[j][i] = v;
                }
            }
        }
        _ => {
            // all-same-point: every cost is zero
            let p = [rng.range_i64(0, 9) as f64, rng.range_i64(0, 9) as f64];
            for _ in 0..n {
                coords.push(p);
            }
        }
    }
    Geometry { class: class.to_string(), metric: metric.to_string(), coords, matrix }
}

fn gen_ids(rng: &mut Rng, n: usize, p_sparse: f64) -> (Vec<usize>, &'static str) {
    if n > 0 && rng.chance(p_sparse) {
        // strictly increasing ids with gaps; node 0 is present in half of the cases
        let mut next = if rng.chance(0.5) { 0 } else { rng.range_usize(1, 9) };
        let mut ids = Vec::with_capacity(n);
        for _ in 0..n {
            ids.push(next);
            next += rng.range_usize(1, 5);
        }
        if ids.iter().enumerate().all(|(i, id)| i == *id) { (ids, "dense") } else { (ids, "sparse") }
    } else {
        ((0..n).collect(), "dense")
    }
}

// ---------------------------------------------------------------------------------------------
// LKH

#[derive(Clone, Debug, Serialize, Deserialize)]
struct LkhCase {
    geometry: Geometry,
    /// node id of geometry index i
    ids: Vec<usize>,
    id_class: String,
    /// neighbour lists (node ids) by geometry index
    neighbours: Vec<Vec<usize>>,
    nb_class: String,
    /// start path (node ids)
    path: Vec<usize>,
    path_class: String,
}

fn build_neighbours(rng: &mut Rng, matrix: &[Vec<f64>], ids: &[usize], nb_class: &str) -> Vec<Vec<usize>> {
    let n = ids.len();
    (0..n)
        .map(|i| {
            // exactly as lkh_search.rs::CostMatrix::new: all other nodes, stable sort by cost
            let mut others: Vec<(usize, f64)> = (0..n).filter(|&j| j != i).map(|j| (j, matrix[i][j])).collect();
            others.sort_by(|a, b| a.1.total_cmp(&b.1));
            let mut list: Vec<usize> = others.into_iter().map(|(j, _)| ids[j]).collect();
            match nb_class {
                "complete-sorted" => {}
                "complete-shuffled" => rng.shuffle(&mut list),
                other => {
                    let k: usize = other.trim_start_matches("knn-").parse().unwrap_or(5);
                    list.truncate(k);
                }
            }
            list
        })
        .collect()
}

fn gen_lkh_case(rng: &mut Rng) -> LkhCase {
    let n = match rng.weighted(&[1.2, 3.5, 3.5, 1.5]) {
        0 => rng.range_usize(0, 4),
        1 => rng.range_usize(5, 12),
        2 => rng.range_usize(13, 25),
        _ => rng.range_usize(26, MAX_LKH_N),
    };
    let geometry = gen_geometry(rng, n);
    let (ids, id_class) = gen_ids(rng, n, 0.12);
    let nb_class =
        *rng.pick(&["complete-sorted", "complete-sorted", "complete-sorted", "complete-shuffled", "knn-1", "knn-2", "knn-3", "knn-5", "knn-8"]);
    let matrix = geometry.dist_matrix();
    let neighbours = build_neighbours(rng, &matrix, &ids, nb_class);
    let (path, path_class) = gen_path(rng, &ids);
    LkhCase {
        geometry,
        ids,
        id_class: id_class.to_string(),
        neighbours,
        nb_class: nb_class.to_string(),
        path,
        path_class: path_class.to_string(),
    }
}

fn gen_path(rng: &mut Rng, ids: &[usize]) -> (Vec<usize>, &'static str) {
    let n = ids.len();
    let mut path = ids.to_vec();
    let class = match rng.weighted(&[1.5, 5., 1.5, 1., 1.]) {
        0 => "identity",
        1 => {
            rng.shuffle(&mut path);
            "random"
        }
        2 => {
            if n > 1 {
                rng.shuffle(&mut path[1..]);
            }
            "random-first-kept"
        }
        3 => {
            path.reverse();
            "reversed"
        }
        _ => {
            if n > 0 {
                let r = rng.usize_below(n);
                path.rotate_left(r);
            }
            "rotated"
        }
    };
    (path, class)
}

struct Adj {
    index: HashMap<usize, usize>,
    matrix: Arc<Vec<Vec<f64>>>,
    neighbours: Vec<Vec<Node>>,
    steps: Arc<AtomicU64>,
    bound: u64,
}

impl Adj {
    fn step(&self) {
        let c = self.steps.fetch_add(1, Ordering::Relaxed) + 1;
        if c > self.bound {
            panic!("{}", BOUND_MSG);
        }
    }

    fn ix(&self, node: Node) -> usize {
        match self.index.get(&node) {
            Some(i) => *i,
            None => panic!("{}", UNKNOWN_NODE_MSG),
        }
    }
}

impl AdjacencySpec for Adj {
    fn cost(&self, edge: &Edge) -> Cost {
        self.step();
        self.matrix[self.ix(edge.0)][self.ix(edge.1)]
    }

    fn neighbours(&self, node: Node) -> &[Node] {
        self.step();
        self.neighbours[self.ix(node)].as_slice()
    }
}

/// `integer` when every cost is a whole number (all partial sums are then exact in f64), else `non-integer`.
fn exactness(matrix: &[Vec<f64>]) -> &'static str {
    if matrix.iter().flat_map(|r| r.iter()).all(|v| v.fract() == 0. && v.abs() < 1e9) { "integer" } else { "non-integer" }
}

fn lkh_bound(n: usize) -> u64 {
    (2000u64 * (n as u64).pow(3)).max(200_000)
}

enum LkhOutcome {
    Returned(Vec<Vec<usize>>, u64),
    BoundExceeded(u64),
    UnknownNode,
    Panic(PanicInfo),
}

fn run_lkh(case: &LkhCase, matrix: &Arc<Vec<Vec<f64>>>) -> LkhOutcome {
    let steps = Arc::new(AtomicU64::new(0));
    let adj = Adj {
        index: case.ids.iter().enumerate().map(|(i, id)| (*id, i)).collect(),
        matrix: matrix.clone(),
        neighbours: case.neighbours.clone(),
        steps: steps.clone(),
        bound: lkh_bound(case.ids.len()),
    };
    let path = case.path.clone();
    match vverif::guard(move || lkh_optimize(adj, path)) {
        Ok(result) => LkhOutcome::Returned(result, steps.load(Ordering::Relaxed)),
        Err(p) if p.message == BOUND_MSG => LkhOutcome::BoundExceeded(steps.load(Ordering::Relaxed)),
        Err(p) if p.message == UNKNOWN_NODE_MSG => LkhOutcome::UnknownNode,
        Err(p) => LkhOutcome::Panic(p),
    }
}

fn closed_cost(path: &[usize], index: &HashMap<usize, usize>, matrix: &[Vec<f64>]) -> f64 {
    let n = path.len();
    (0..n).map(|i| matrix[index[&path[i]]][index[&path[(i + 1) % n]]]).sum()
}

/// A judged clause violation: (signature, what, details).
type Finding = (String, String, Value);

/// Oracle for one list of returned paths; written from the property text.
fn judge_lkh(case: &LkhCase, matrix: &[Vec<f64>], result: &[Vec<usize>]) -> Vec<Finding> {
    let mut out = Vec::new();
    let index: HashMap<usize, usize> = case.ids.iter().enumerate().map(|(i, id)| (*id, i)).collect();
    let mut sorted_in = case.path.clone();
    sorted_in.sort_unstable();
    let cost_in = closed_cost(&case.path, &index, matrix);
    let max_entry = matrix.iter().flat_map(|r| r.iter()).fold(0.0f64, |a, b| a.max(*b));
    for (k, r) in result.iter().enumerate() {
        let mut sorted_out = r.clone();
        sorted_out.sort_unstable();
        if sorted_out != sorted_in {
            out.push((
                "C17|lkh|not-a-permutation".to_string(),
                format!("lkh_optimize returned a path which is not a permutation of the {} input nodes", case.path.len()),
                json!({"returned_index": k, "returned": r}),
            ));
            continue;
        }
        if let (Some(a), Some(b)) = (case.path.first(), r.first()) {
            if a != b {
                out.push((
                    "C17|lkh|start-node-changed".to_string(),
                    format!("lkh_optimize returned a path starting at node {b} for an input path starting at node {a}"),
                    json!({"returned_index": k, "returned": r, "expected_first": a, "observed_first": b}),
                ));
            }
        }
        let cost_out = closed_cost(r, &index, matrix);
        let tol = 1e-9 * cost_in.abs().max(cost_out.abs()).max(max_entry);
        if cost_out > cost_in + tol {
            out.push((
                "C17|lkh|cost-increased".to_string(),
                format!("lkh_optimize returned a path with closed-tour cost {cost_out} above the input's {cost_in}"),
                json!({"returned_index": k, "returned": r, "cost_in": cost_in, "cost_out": cost_out}),
            ));
        }
    }
    out
}

fn lkh_artefact(case: &LkhCase, case_seed: u64, matrix: &[Vec<f64>], result: Option<&[Vec<usize>]>, details: Value) -> Value {
    json!({
        "kind": "lkh",
        "case_seed": case_seed,
        "input": serde_json::to_value(case).unwrap_or(Value::Null),
        "cost_matrix_by_index": matrix,
        "result": result,
        "details": details,
    })
}

fn check_lkh(run: &Run, case: &LkhCase, case_seed: u64, origin: &str) -> bool {
    let n = case.ids.len();
    let matrix = Arc::new(case.geometry.dist_matrix());
    let outcome = run_lkh(case, &matrix);
    run.eval();
    run.observe("lkh.origin", origin);
    run.observe("lkh.geometry", &case.geometry.class);
    run.observe("lkh.neighbours", &case.nb_class);
    run.observe("lkh.path", &case.path_class);
    run.observe("lkh.ids", &case.id_class);
    run.observe("lkh.n", &size_bucket(n));
    if case.path.first().is_some_and(|f| *f != 0) {
        run.observe("lkh.start", "first-node-not-0");
    } else {
        run.observe("lkh.start", "first-node-0-or-empty");
    }
    let mut violated = false;
    match outcome {
        LkhOutcome::Returned(result, steps) => {
            run.observe("lkh.result-len", &result.len().min(3).to_string());
            let ratio = steps as f64 / (n.max(1) as f64).powi(3);
            run.observe("lkh.steps-per-n3", ratio_bucket(ratio));
            note_max(&MAX_RATIO_MILLI, (ratio * 1000.) as u64);
            if ratio >= 20. {
                run.observe("lkh.steps-per-n3>=20", &format!("{}/{}", case.geometry.class, exactness(&matrix)));
            }
            run.observe("lkh.costs", exactness(&matrix));
            note_max(&MAX_STEPS, steps);
            if result.is_empty() {
                // "returns permutations …" is vacuous for an empty list: counted, not judged
                run.observe("lkh.outcome", "empty-result-list(vacuous)");
            }
            let findings = judge_lkh(case, &matrix, &result);
            let index: HashMap<usize, usize> = case.ids.iter().enumerate().map(|(i, id)| (*id, i)).collect();
            let improved = result.last().is_some_and(|r| {
                let mut s = r.clone();
                s.sort_unstable();
                let mut t = case.path.clone();
                t.sort_unstable();
                s == t && closed_cost(r, &index, &matrix) < closed_cost(&case.path, &index, &matrix)
            });
            if !result.is_empty() {
                run.observe("lkh.outcome", if improved { "improved" } else { "not-improved" });
            }
            if improved && n >= 4 {
                run.nontrivial(&format!("lkh|{:?}|{:?}|{:?}", case.geometry.coords, case.geometry.matrix, case.path));
                if case.path[0] != 0 {
                    run.observe("lkh.improved", "start-not-0");
                } else {
                    run.observe("lkh.improved", "start-0");
                }
                if origin == "random" && !SAMPLED[0].swap(true, Ordering::Relaxed) {
                    run.sample(json!({"kind": "lkh", "case_seed": case_seed, "geometry": case.geometry.class, "coords": case.geometry.coords,
                        "neighbours": case.nb_class, "path": case.path, "returned": result, "steps": steps}));
                }
            }
            for (sig, what, details) in findings {
                violated = true;
                run.violation(&sig, &what, lkh_artefact(case, case_seed, &matrix, Some(&result), details));
            }
        }
        LkhOutcome::BoundExceeded(steps) => {
            violated = true;
            run.observe("lkh.outcome", "step-bound-exceeded");
            run.observe("lkh.step-bound-exceeded", &format!("{}/{}", case.geometry.class, exactness(&matrix)));
            if case.nb_class == "complete-sorted" && case.path.iter().enumerate().all(|(i, p)| i == *p) {
                // exactly the call shape of lkh_search.rs: path 0..n, all other nodes sorted by cost as neighbours
                run.observe("lkh.step-bound-exceeded", "call-shape-of-lkh_search(identity-path,complete-sorted)");
            }
            // integer-valued costs are summed exactly, so rounding noise cannot explain a missing return there:
            // the two classes are different defects and get different signatures
            run.violation(
                &format!("C17|lkh|step-bound-exceeded|costs={}", exactness(&matrix)),
                &format!(
                    "lkh_optimize made more than {} cost/neighbour queries for n={n} ({} costs, {}) without returning",
                    lkh_bound(n),
                    exactness(&matrix),
                    case.geometry.class
                ),
                lkh_artefact(case, case_seed, &matrix, None, json!({"steps": steps, "bound": lkh_bound(n)})),
            );
        }
        LkhOutcome::UnknownNode => {
            violated = true;
            run.observe("lkh.outcome", "queried-unknown-node");
            run.violation(
                "C17|lkh|panic|adjacency-queried-with-unknown-node",
                "lkh_optimize asked the adjacency for a node which is neither in the path nor in any neighbour list",
                lkh_artefact(case, case_seed, &matrix, None, Value::Null),
            );
        }
        LkhOutcome::Panic(p) => {
            violated = true;
            run.observe("lkh.outcome", "panic");
            run.violation(
                &format!("C17|lkh|panic|{}", p.file()),
                &format!("lkh_optimize panicked: {} at {}", vverif::clip(&p.message, 120), p.location),
                lkh_artefact(case, case_seed, &matrix, None, p.to_json()),
            );
        }
    }
    violated
}

// ---------------------------------------------------------------------------------------------
// DBSCAN

#[derive(Clone, Debug, Serialize, Deserialize)]
struct DbCase {
    dim: usize,
    pts: Vec<[i64; 2]>,
    /// manhattan | chebyshev | sqeuclid
    metric: String,
    eps: i64,
    /// true: d <= eps, false: d < eps (the point itself is always part of its neighbourhood)
    inclusive: bool,
    min_points: usize,
    /// iteration order of the items handed to create_clusters
    order: Vec<usize>,
    nb_order: String,
    /// the explicit ε-neighbourhood of every item (contains the item itself; symmetric)
    neighbourhoods: Vec<Vec<usize>>,
}

fn db_dist(metric: &str, a: [i64; 2], b: [i64; 2]) -> i64 {
    let (dx, dy) = ((a[0] - b[0]).abs(), (a[1] - b[1]).abs());
    match metric {
        "manhattan" => dx + dy,
        "chebyshev" => dx.max(dy),
        _ => dx * dx + dy * dy,
    }
}

fn gen_db_case(rng: &mut Rng) -> DbCase {
    let n = if rng.chance(0.12) { rng.range_usize(0, 3) } else { rng.range_usize(4, 60) };
    let dim = if rng.chance(0.4) { 1 } else { 2 };
    let range = *rng.pick(&[1i64, 2, 4, 6, 8, 12, 16, 32]);
    let metric = *rng.pick(&["manhattan", "chebyshev", "sqeuclid"]);
    let pts: Vec<[i64; 2]> =
        (0..n).map(|_| [rng.range_i64(0, range), if dim == 1 { 0 } else { rng.range_i64(0, range) }]).collect();
    let eps = if metric == "sqeuclid" {
        let r = rng.range_i64(0, (range / 2).max(2));
        r * r + rng.range_i64(0, 1)
    } else {
        rng.range_i64(0, (range / 2).max(2))
    };
    let inclusive = rng.chance(0.6);
    let min_points = match rng.weighted(&[1., 2., 2., 1.5, 1., 1., 0.5, 0.5, 0.5, 1.5]) {
        0 => 1,
        1 => 2,
        2 => 3,
        3 => 4,
        4 => 5,
        5 => 6,
        6 => n,
        7 => n + 1,
        8 => n + rng.range_usize(2, 9),
        _ => rng.range_usize(1, n.max(1)),
    };
    let mut order: Vec<usize> = (0..n).collect();
    if rng.chance(0.8) {
        rng.shuffle(&mut order);
    }
    let nb_order = *rng.pick(&["by-id", "shuffled", "self-last", "by-distance"]);
    let neighbourhoods = (0..n)
        .map(|i| {
            let mut list: Vec<usize> = (0..n)
                .filter(|&j| {
                    j == i || {
                        let d = db_dist(metric, pts[i], pts[j]);
                        if inclusive { d <= eps } else { d < eps }
                    }
                })
                .collect();
            match nb_order {
                "shuffled" => rng.shuffle(&mut list),
                "self-last" => {
                    list.retain(|&j| j != i);
                    list.push(i);
                }
                "by-distance" => list.sort_by_key(|&j| db_dist(metric, pts[i], pts[j])),
                _ => {}
            }
            list
        })
        .collect();
    DbCase { dim, pts, metric: metric.to_string(), eps, inclusive, min_points, order, nb_order: nb_order.to_string(), neighbourhoods }
}

fn run_dbscan(case: &DbCase) -> Result<Vec<Vec<usize>>, PanicInfo> {
    let n = case.pts.len();
    let items: Vec<usize> = (0..n).collect();
    let items = &items;
    let nbrs = &case.neighbourhoods;
    let order: Vec<&usize> = case.order.iter().map(|&i| &items[i]).collect();
    let min_points = case.min_points;
    vverif::guard(move || {
        create_clusters(order, min_points, move |p: &usize| nbrs[*p].iter().map(move |&j| &items[j]))
            .into_iter()
            .map(|cluster| cluster.into_iter().copied().collect::<Vec<usize>>())
            .collect::<Vec<_>>()
    })
}

struct DbStats {
    clusters: usize,
    borders: usize,
    noise: usize,
    cores: usize,
    mergeable_pairs: usize,
    duplicate_members: usize,
}

/// Oracle for a DBSCAN result; core := at least `min_points` neighbours including the point itself.
fn judge_dbscan(case: &DbCase, clusters: &[Vec<usize>]) -> (Vec<Finding>, DbStats) {
    let n = case.pts.len();
    let nb = &case.neighbourhoods;
    let core: Vec<bool> = (0..n).map(|i| nb[i].len() >= case.min_points).collect();
    let mut out: Vec<Finding> = Vec::new();
    let mut owner: Vec<Option<usize>> = vec![None; n];
    let mut stats = DbStats {
        clusters: clusters.len(),
        borders: 0,
        noise: 0,
        cores: core.iter().filter(|c| **c).count(),
        mergeable_pairs: 0,
        duplicate_members: 0,
    };

    // members must be input points; clusters pairwise disjoint
    let mut foreign = false;
    for (c, cluster) in clusters.iter().enumerate() {
        let mut seen = BTreeSet::new();
        for &p in cluster {
            if p >= n {
                foreign = true;
                out.push((
                    "C17|dbscan|member-not-an-input-point".to_string(),
                    format!("cluster {c} contains item {p} which was not given"),
                    json!({"cluster": c, "item": p}),
                ));
                continue;
            }
            if !seen.insert(p) {
                stats.duplicate_members += 1;
                continue;
            }
            match owner[p] {
                Some(other) if other != c => out.push((
                    "C17|dbscan|clusters-overlap".to_string(),
                    format!("item {p} is a member of clusters {other} and {c}"),
                    json!({"item": p, "clusters": [other, c]}),
                )),
                _ => owner[p] = Some(c),
            }
        }
    }
    if foreign {
        return (out, stats);
    }

    for (c, cluster) in clusters.iter().enumerate() {
        let cores_in: Vec<usize> = cluster.iter().copied().filter(|&p| core[p]).collect();
        stats.borders += cluster.iter().filter(|&&p| !core[p]).count();
        if cores_in.is_empty() {
            out.push((
                "C17|dbscan|cluster-without-core-point".to_string(),
                format!("cluster {c} ({} members) contains no point with at least {} neighbours", cluster.len(), case.min_points),
                json!({"cluster": c, "members": cluster}),
            ));
            continue;
        }
        // every member density-reachable from one core point of the cluster: chain p0=c, p1, … pk=member with
        // p(i+1) ∈ N(p(i)) and p0 … p(k-1) core (BFS over the whole data set, expanding core points only)
        let members: BTreeSet<usize> = cluster.iter().copied().collect();
        let mut best_unreached: Option<(usize, Vec<usize>)> = None;
        let mut tried = BTreeSet::new();
        for &c0 in cores_in.iter() {
            if tried.contains(&c0) {
                continue;
            }
            let reach = density_reachable(c0, nb, &core);
            // cores reached from c0 reach exactly the same set when neighbourhoods are symmetric: skip them
            for &q in cores_in.iter() {
                if reach[q] {
                    tried.insert(q);
                }
            }
            let unreached: Vec<usize> = members.iter().copied().filter(|&p| !reach[p]).collect();
            if unreached.is_empty() {
                best_unreached = None;
                break;
            }
            if best_unreached.as_ref().is_none_or(|(_, u)| unreached.len() < u.len()) {
                best_unreached = Some((c0, unreached));
            }
        }
        if let Some((c0, unreached)) = best_unreached {
            out.push((
                "C17|dbscan|member-not-density-reachable".to_string(),
                format!(
                    "cluster {c}: {} member(s) (e.g. item {}) are not density-reachable through core points from any core point of the cluster (best: core item {c0})",
                    unreached.len(),
                    unreached[0]
                ),
                json!({"cluster": c, "members": cluster, "core": c0, "unreached": unreached}),
            ));
        }
    }

    let lost: Vec<usize> = (0..n).filter(|&p| core[p] && owner[p].is_none()).collect();
    if !lost.is_empty() {
        out.push((
            "C17|dbscan|core-point-unclustered".to_string(),
            format!("{} core point(s) (e.g. item {} with {} neighbours, min_points {}) are outside all clusters", lost.len(), lost[0], nb[lost[0]].len(), case.min_points),
            json!({"unclustered_core_points": lost}),
        ));
    }
    stats.noise = (0..n).filter(|&p| owner[p].is_none()).count();
    // observation only (the property does not state maximality): core points which are direct neighbours but
    // sit in different clusters
    let mut pairs = BTreeSet::new();
    for p in 0..n {
        if !core[p] {
            continue;
        }
        for &q in nb[p].iter() {
            if core[q] {
                if let (Some(a), Some(b)) = (owner[p], owner[q]) {
                    if a != b {
                        pairs.insert((a.min(b), a.max(b)));
                    }
                }
            }
        }
    }
    stats.mergeable_pairs = pairs.len();
    (out, stats)
}

fn density_reachable(from: usize, nb: &[Vec<usize>], core: &[bool]) -> Vec<bool> {
    let mut reach = vec![false; nb.len()];
    let mut queue = VecDeque::new();
    reach[from] = true;
    queue.push_back(from);
    while let Some(p) = queue.pop_front() {
        if !core[p] {
            continue; // border points are reached but never expanded
        }
        for &q in nb[p].iter() {
            if !reach[q] {
                reach[q] = true;
                queue.push_back(q);
            }
        }
    }
    reach
}

fn db_artefact(case: &DbCase, case_seed: u64, result: Option<&[Vec<usize>]>, details: Value) -> Value {
    json!({"kind": "dbscan", "case_seed": case_seed, "input": serde_json::to_value(case).unwrap_or(Value::Null), "result": result, "details": details})
}

/// The job-level wrapper (`create_job_clusters`, which also fills `Jobs::clusters`): jobs on a line with coincident locations
/// and jobs without any location; the neighbourhood is what `Jobs::neighbors` reports. The result is judged by the same
/// oracle as the generic algorithm over the located jobs and the neighbourhoods {located job, cost < epsilon}; a job without
/// location must never be a member.
fn check_job_dbscan(run: &Run, rng: &mut Rng, case_seed: u64) {
    use vrp_core::construction::clustering::dbscan::create_job_clusters;
    use vrp_core::construction::features::{MinimizeUnassignedBuilder, TransportFeatureBuilder};
    use vrp_core::models::problem::{Job, JobIdDimension, SimpleTransportCost, SingleBuilder, TransportCost, VehicleBuilder, VehicleDetailBuilder, get_job_locations};
    use vrp_core::models::{GoalContextBuilder, ProblemBuilder};
    let k = rng.range_usize(3, 7);
    let mut coords: Vec<i64> = vec![0];
    for _ in 1..k {
        coords.push(*rng.pick(&[3i64, 5, 8, 12, 20, 21, 23, 40, 44, 90]));
    }
    let n = rng.range_usize(4, 16);
    let p_none = *rng.pick(&[0.0, 0.15, 0.3]);
    let spec: Vec<Option<usize>> = (0..n).map(|_| if rng.chance(p_none) { None } else { Some(rng.range_usize(1, k - 1)) }).collect();
    let min_points = *rng.pick(&[2usize, 2, 3, 4]);
    let eps = *rng.pick(&[1.0f64, 4.0, 6.0, 10.0, 25.0]);
    let input = json!({"kind": "job-dbscan", "case_seed": case_seed, "coordinates": coords, "job_locations": spec, "min_points": min_points, "epsilon": eps});
    let outcome = vverif::guard(|| -> Result<(Vec<Job>, Vec<Vec<Job>>, Vec<Vec<(Job, f64)>>), String> {
        let data: Vec<f64> = coords.iter().flat_map(|a| coords.iter().map(move |b| (a - b).abs() as f64)).collect();
        let transport: Arc<dyn TransportCost> = Arc::new(SimpleTransportCost::new(data.clone(), data).map_err(|e| e.to_string())?);
        let goal = GoalContextBuilder::with_features(&[
            MinimizeUnassignedBuilder::new("min-unassigned").build().map_err(|e| e.to_string())?,
            TransportFeatureBuilder::new("min-distance").set_transport_cost(transport.clone()).set_time_constrained(false).build_minimize_distance().map_err(|e| e.to_string())?,
        ])
        .and_then(|b| b.build())
        .map_err(|e| e.to_string())?;
        let jobs = spec
            .iter()
            .enumerate()
            .map(|(i, loc)| {
                let b = SingleBuilder::default().id(&format!("j{i}")).duration(1.)?;
                match loc {
                    Some(l) => b.location(*l)?.build_as_job(),
                    None => b.build_as_job(),
                }
            })
            .collect::<Result<Vec<_>, _>>()
            .map_err(|e| e.to_string())?;
        let vehicle = VehicleBuilder::default()
            .id("v1")
            .add_detail(VehicleDetailBuilder::default().set_start_location(0).set_end_location(0).build().map_err(|e| e.to_string())?)
            .build()
            .map_err(|e| e.to_string())?;
        let problem = ProblemBuilder::default()
            .add_jobs(jobs.into_iter())
            .add_vehicles(std::iter::once(vehicle))
            .with_goal(goal)
            .with_transport_cost(transport)
            .with_logger(Arc::new(|_: &str| {}))
            .build()
            .map_err(|e| e.to_string())?;
        let profile = problem.fleet.profiles.first().cloned().ok_or("no profile")?;
        let all: Vec<Job> = problem.jobs.all().to_vec();
        let neighbours: Vec<Vec<(Job, f64)>> = all.iter().map(|j| problem.jobs.neighbors(&profile, j, 0.).map(|(o, c)| (o.clone(), c)).collect()).collect();
        let clusters = create_job_clusters(&all, &problem.fleet, Some(min_points), Some(eps), |profile, job| problem.jobs.neighbors(profile, job, 0.))
            .map_err(|e| e.to_string())?
            .into_iter()
            .map(|c| c.into_iter().collect::<Vec<_>>())
            .collect();
        Ok((all, clusters, neighbours))
    });
    run.eval();
    run.observe("dbscan.origin", "job-level");
    let (all, clusters, neighbours) = match outcome {
        Ok(Ok(v)) => v,
        Ok(Err(e)) => {
            run.inconclusive(&format!("job-level dbscan: cannot build the case: {}", vverif::clip(&e, 60)));
            return;
        }
        Err(p) => {
            run.violation(&format!("C17|job-dbscan|panic|{}", p.file()), &format!("create_job_clusters panicked: {} at {}", vverif::clip(&p.message, 120), p.location), json!({"input": input, "panic": p.to_json()}));
            return;
        }
    };
    let located = |j: &Job| get_job_locations(j).any(|l| l.is_some());
    let id = |j: &Job| j.dimens().get_job_id().cloned().unwrap_or_default();
    let points: Vec<usize> = (0..all.len()).filter(|i| located(&all[*i])).collect();
    let index_of = |j: &Job| points.iter().position(|i| all[*i] == *j);
    if clusters.iter().flatten().any(|j| !located(j)) {
        let who: Vec<String> = clusters.iter().flatten().filter(|j| !located(j)).map(id).collect();
        run.violation("C17|job-dbscan|member-without-location", &format!("a cluster contains jobs without any location: {who:?}"), json!({"input": input, "clusters": clusters.iter().map(|c| c.iter().map(id).collect::<Vec<_>>()).collect::<Vec<_>>()}));
        return;
    }
    let neighbourhoods: Vec<Vec<usize>> = points.iter().map(|i| neighbours[*i].iter().filter(|(o, c)| located(o) && *c < eps).filter_map(|(o, _)| index_of(o)).collect()).collect();
    let case = DbCase {
        dim: 1,
        pts: points.iter().map(|i| [spec[id(&all[*i])[1..].parse::<usize>().unwrap_or(0)].map_or(0, |l| coords[l]), 0]).collect(),
        metric: "job-level(cost of Jobs::neighbors)".into(),
        eps: eps as i64,
        inclusive: false,
        min_points,
        order: (0..points.len()).collect(),
        nb_order: "as returned by Jobs::neighbors".into(),
        neighbourhoods,
    };
    let mapped: Vec<Vec<usize>> = clusters.iter().map(|c| c.iter().filter_map(&index_of).collect()).collect();
    let (findings, stats) = judge_dbscan(&case, &mapped);
    run.observe("job-dbscan.jobs-without-location", if spec.iter().any(|l| l.is_none()) { "some" } else { "none" });
    run.observe("job-dbscan.clusters", &stats.clusters.min(4).to_string());
    if stats.clusters >= 1 {
        let mut seen = BTreeSet::new();
        if spec.iter().flatten().any(|l| !seen.insert(*l)) && spec.iter().any(|l| l.is_none()) {
            run.observe("job-dbscan.features", "coincident jobs next to jobs without location, with a cluster");
        }
        run.nontrivial(&format!("job-dbscan|{coords:?}|{spec:?}|{min_points}|{eps}"));
    }
    for (sig, what, details) in findings {
        run.violation(&sig.replace("C17|dbscan|", "C17|job-dbscan|"), &what, json!({"input": input, "as_generic_case": serde_json::to_value(&case).unwrap_or(Value::Null), "clusters": mapped, "details": details}));
    }
}

/// The search operator built on the tour re-sequencing (`LKHSearch`, both modes) on an unconstrained problem with TWO routing
/// profiles whose symmetric matrices differ: the tour of a vehicle of either profile comes back as a permutation of the same
/// activities with the same start, and its closed-tour cost in the matrix of the vehicle's OWN profile is not above the input's.
fn check_lkh_operator(run: &Run, rng: &mut Rng, case_seed: u64) {
    use vrp_core::construction::features::{MinimizeUnassignedBuilder, TransportFeatureBuilder};
    use vrp_core::construction::heuristics::InsertionContext;
    use vrp_core::models::problem::{MatrixData, SingleBuilder, VehicleBuilder, VehicleDetailBuilder, create_matrix_transport_cost};
    use vrp_core::models::solution::Activity;
    use vrp_core::models::{GoalContextBuilder, ProblemBuilder};
    use vrp_core::rosomaxa::evolution::TelemetryMode;
    use vrp_core::rosomaxa::prelude::{Environment, HeuristicSearchOperator};
    use vrp_core::solver::search::{LKHSearch, LKHSearchMode};
    use vrp_core::solver::{RefinementContext, create_elitism_population};
    let size = rng.range_usize(5, 10);
    let points = |rng: &mut Rng| -> Vec<(i64, i64)> { (0..size).map(|_| (rng.range_i64(0, 30), rng.range_i64(0, 30))).collect() };
    let geo = [points(rng), points(rng)];
    let matrix = |pts: &[(i64, i64)]| -> Vec<f64> {
        pts.iter().flat_map(|a| pts.iter().map(move |b| (((a.0 - b.0).pow(2) + (a.1 - b.1).pow(2)) as f64).sqrt())).collect()
    };
    let matrices = [matrix(&geo[0]), matrix(&geo[1])];
    let profile_idx = rng.usize_below(2);
    let mut order: Vec<usize> = (1..size).collect();
    rng.shuffle(&mut order);
    let mode_diverse = rng.chance(0.5);
    let input = json!({"kind": "lkh-operator", "case_seed": case_seed, "points_profile0": geo[0], "points_profile1": geo[1], "vehicle_profile": profile_idx,
        "tour": order, "mode": if mode_diverse { "Diverse" } else { "ImprovementOnly" }});
    let outcome = vverif::guard(|| -> Result<(Vec<usize>, Vec<Vec<usize>>), String> {
        let e = |e: vrp_core::prelude::GenericError| e.to_string();
        let transport = create_matrix_transport_cost(matrices.iter().enumerate().map(|(idx, m)| MatrixData::new(idx, None, m.clone(), m.clone())).collect()).map_err(e)?;
        let jobs = (1..size).map(|idx| SingleBuilder::default().id(&format!("job{idx}")).location(idx)?.build_as_job()).collect::<Result<Vec<_>, _>>().map_err(e)?;
        let vehicles = (0..2)
            .map(|p| {
                VehicleBuilder::default()
                    .id(&format!("v{p}"))
                    .set_profile_idx(p)
                    .add_detail(VehicleDetailBuilder::default().set_start_location(0).set_end_location(0).build()?)
                    .build()
            })
            .collect::<Result<Vec<_>, _>>()
            .map_err(e)?;
        let goal = GoalContextBuilder::with_features(&[
            MinimizeUnassignedBuilder::new("min-unassigned").build().map_err(e)?,
            TransportFeatureBuilder::new("min-distance").set_transport_cost(transport.clone()).set_time_constrained(false).build_minimize_distance().map_err(e)?,
        ])
        .and_then(|b| b.build())
        .map_err(e)?;
        let problem = Arc::new(
            ProblemBuilder::default()
                .add_jobs(jobs.into_iter())
                .add_vehicles(vehicles.into_iter())
                .with_goal(goal)
                .with_transport_cost(transport)
                .with_logger(Arc::new(|_: &str| ()))
                .build()
                .map_err(e)?,
        );
        let environment = Arc::new(Environment::new(Arc::new(vrp_core::rosomaxa::prelude::DefaultRandom::default()), None, vrp_core::rosomaxa::utils::Parallelism::new_with_cpus(1), Arc::new(|_: &str| ()), false));
        let mut ctx = InsertionContext::new(problem.clone(), environment.clone());
        let mut route_ctx = ctx.solution.registry.next_route().find(|rc| rc.route().actor.vehicle.profile.index == profile_idx).ok_or("no vehicle with that profile")?.deep_copy();
        for &location in order.iter() {
            let job = problem.jobs.all().iter().find(|job| job.to_single().places.first().and_then(|p| p.location) == Some(location)).ok_or("no job at that location")?;
            let mut activity = Activity::new_with_job(job.to_single().clone());
            activity.place.location = location;
            route_ctx.route_mut().tour.insert_last(activity);
        }
        ctx.solution.registry.use_route(&route_ctx);
        ctx.solution.routes.push(route_ctx);
        ctx.solution.required.clear();
        ctx.restore();
        let refinement_ctx = RefinementContext::new(problem.clone(), Box::new(create_elitism_population(problem.goal.clone(), environment.clone())), TelemetryMode::None, environment);
        let mode = if mode_diverse { LKHSearchMode::Diverse } else { LKHSearchMode::ImprovementOnly };
        let result = LKHSearch::new(mode).search(&refinement_ctx, &ctx);
        let locations = |c: &InsertionContext| -> Vec<Vec<usize>> { c.solution.routes.iter().map(|rc| rc.route().tour.all_activities().map(|a| a.place.location).collect()).collect() };
        let before = locations(&ctx);
        Ok((before.first().cloned().unwrap_or_default(), locations(&result)))
    });
    run.eval();
    run.observe("lkh.origin", "search-operator");
    run.observe("lkh-operator.vehicle-profile", &profile_idx.to_string());
    run.observe("lkh-operator.mode", if mode_diverse { "Diverse" } else { "ImprovementOnly" });
    let (before, after) = match outcome {
        Ok(Ok(v)) => v,
        Ok(Err(e)) => {
            run.inconclusive(&format!("lkh operator: cannot build the case: {}", vverif::clip(&e, 60)));
            return;
        }
        Err(p) => {
            run.violation(&format!("C17|lkh-operator|panic|{}", p.file()), &format!("LKHSearch panicked: {} at {}", vverif::clip(&p.message, 120), p.location), json!({"input": input, "panic": p.to_json()}));
            return;
        }
    };
    let art = |extra: Value| json!({"input": input, "before": before, "after": after, "details": extra});
    if after.len() != 1 || after[0].len() != before.len() {
        run.violation("C17|lkh-operator|not-a-permutation", &format!("one tour {before:?} went in, {after:?} came back"), art(Value::Null));
        return;
    }
    // closed tours: the last entry is the return to the start
    let (b, a) = (&before[..before.len() - 1], &after[0][..after[0].len() - 1]);
    let (mut sb, mut sa) = (b.to_vec(), a.to_vec());
    sb.sort();
    sa.sort();
    if sb != sa {
        run.violation("C17|lkh-operator|not-a-permutation", &format!("{b:?} -> {a:?}"), art(Value::Null));
        return;
    }
    if b.first() != a.first() {
        run.violation("C17|lkh-operator|start-node-changed", &format!("{b:?} -> {a:?}"), art(Value::Null));
        return;
    }
    let own = &matrices[profile_idx];
    let cost = |nodes: &[usize]| -> f64 { (0..nodes.len()).map(|i| own[nodes[i] * size + nodes[(i + 1) % nodes.len()]]).sum() };
    let (cb, ca) = (cost(b), cost(a));
    if ca > cb + 1e-9 * cb.max(1.) {
        run.violation("C17|lkh-operator|cost-increased", &format!("closed-tour cost in the matrix of the vehicle's own profile {profile_idx} went up: {cb} -> {ca} ({b:?} -> {a:?})"), art(json!({"cost_before": cb, "cost_after": ca})));
        return;
    }
    if ca < cb - 1e-9 {
        run.observe("lkh-operator.outcome", "improved");
        run.nontrivial(&format!("lkh-operator|{:?}|{:?}|{profile_idx}|{order:?}|{mode_diverse}", geo[0], geo[1]));
    } else {
        run.observe("lkh-operator.outcome", "same cost");
    }
}

fn check_dbscan(run: &Run, case: &DbCase, case_seed: u64, origin: &str) -> bool {
    let n = case.pts.len();
    let result = run_dbscan(case);
    run.eval();
    run.observe("dbscan.origin", origin);
    run.observe("dbscan.n", &size_bucket(n));
    run.observe("dbscan.metric", &format!("{}d-{}-{}", case.dim, case.metric, if case.inclusive { "le" } else { "lt" }));
    run.observe(
        "dbscan.min_points",
        &if case.min_points > n { ">n".to_string() } else if case.min_points == n { "=n".to_string() } else { case.min_points.min(7).to_string() },
    );
    run.observe("dbscan.neighbour-order", &case.nb_order);
    let mut violated = false;
    match result {
        Ok(clusters) => {
            let (findings, stats) = judge_dbscan(case, &clusters);
            run.observe("dbscan.clusters", &stats.clusters.min(6).to_string());
            run.observe("dbscan.shape", &format!(
                "{}{}{}",
                if stats.cores > 0 { "core" } else { "nocore" },
                if stats.borders > 0 { "+border" } else { "" },
                if stats.noise > 0 { "+noise" } else { "" }
            ));
            if stats.mergeable_pairs > 0 {
                run.observe("dbscan.non-maximal(observation-only)", "adjacent-core-points-in-different-clusters");
            }
            if stats.duplicate_members > 0 {
                run.observe("dbscan.duplicate-member-within-cluster(observation-only)", "seen");
            }
            let has_dup_points = {
                let mut s = BTreeSet::new();
                case.pts.iter().any(|p| !s.insert(*p))
            };
            if has_dup_points {
                run.observe("dbscan.features", "duplicate-points");
            }
            if stats.clusters >= 1 && (stats.borders > 0 || stats.noise > 0 || stats.clusters >= 2) {
                run.nontrivial(&format!("dbscan|{:?}|{}|{}|{}|{}|{:?}", case.pts, case.metric, case.eps, case.inclusive, case.min_points, case.order));
                if origin == "random" && stats.borders > 0 && stats.clusters >= 2 && !SAMPLED[1].swap(true, Ordering::Relaxed) {
                    run.sample(json!({"kind": "dbscan", "case_seed": case_seed, "pts": case.pts, "metric": case.metric, "eps": case.eps,
                        "inclusive": case.inclusive, "min_points": case.min_points, "order": case.order, "clusters": clusters}));
                }
            }
            for (sig, what, details) in findings {
                violated = true;
                run.violation(&sig, &what, db_artefact(case, case_seed, Some(&clusters), details));
            }
        }
        Err(p) => {
            violated = true;
            run.violation(
                &format!("C17|dbscan|panic|{}", p.file()),
                &format!("create_clusters panicked: {} at {}", vverif::clip(&p.message, 120), p.location),
                db_artefact(case, case_seed, None, p.to_json()),
            );
        }
    }
    violated
}

// ---------------------------------------------------------------------------------------------
// k-medoids (flat and hierarchical)

#[derive(Clone, Debug, Serialize, Deserialize)]
struct KmCase {
    geometry: Geometry,
    /// point id of geometry index i (distinct)
    ids: Vec<usize>,
    id_class: String,
    /// order in which the points are handed over
    order: Vec<usize>,
    hierarchical: bool,
    /// k for the flat variant, max_tiers for the hierarchical one
    param: usize,
}

fn gen_km_case(rng: &mut Rng, hierarchical: bool) -> KmCase {
    let n = if rng.chance(0.2) { rng.range_usize(0, 3) } else { rng.range_usize(4, 40) };
    let geometry = gen_geometry(rng, n);
    let (ids, id_class) = gen_ids(rng, n, 0.3);
    let mut order: Vec<usize> = (0..n).collect();
    if rng.chance(0.7) {
        rng.shuffle(&mut order);
    }
    let param = if hierarchical {
        if rng.chance(0.1) { rng.range_usize(6, 9) } else { rng.range_usize(0, 5) }
    } else {
        match rng.weighted(&[0.4, 1., 2., 1.5, 0.7, 1., 0.6, 0.4, 2.5]) {
            0 => 0,
            1 => 1,
            2 => 2,
            3 => 3,
            4 => n.saturating_sub(1),
            5 => n,
            6 => n + 1,
            7 => n + rng.range_usize(2, 5),
            _ => rng.range_usize(1, n.max(1)),
        }
    };
    KmCase { geometry, ids, id_class: id_class.to_string(), order, hierarchical, param }
}

type Clusters = BTreeMap<usize, Vec<usize>>;

fn km_inputs(case: &KmCase) -> (Vec<usize>, Arc<HashMap<usize, usize>>, Arc<Vec<Vec<f64>>>) {
    let points: Vec<usize> = case.order.iter().map(|&i| case.ids[i]).collect();
    let index: Arc<HashMap<usize, usize>> = Arc::new(case.ids.iter().enumerate().map(|(i, id)| (*id, i)).collect());
    (points, index, Arc::new(case.geometry.dist_matrix()))
}

fn run_km(case: &KmCase) -> Result<Clusters, PanicInfo> {
    let (points, index, matrix) = km_inputs(case);
    let k = case.param;
    vverif::guard(move || {
        create_kmedoids(&points, k, move |a: &usize, b: &usize| matrix[index[a]][index[b]]).into_iter().collect::<Clusters>()
    })
}

fn run_hkm(case: &KmCase) -> Result<Vec<Clusters>, PanicInfo> {
    let (points, index, matrix) = km_inputs(case);
    let tiers = case.param;
    vverif::guard(move || {
        create_hierarchical_kmedoids(&points, tiers, move |a: &usize, b: &usize| matrix[index[a]][index[b]])
            .into_iter()
            .map(|tier| tier.into_iter().collect::<Clusters>())
            .collect::<Vec<_>>()
    })
}

/// Partition clauses for one medoid → members map. Returns the findings and whether the map is a partition
/// (needed before sibling groups can be derived from it).
fn judge_partition(algo: &str, ids: &[usize], clusters: &Clusters, tier: Option<usize>) -> (Vec<Finding>, bool) {
    let mut out: Vec<Finding> = Vec::new();
    let input: BTreeSet<usize> = ids.iter().copied().collect();
    let at = tier.map(|t| format!(" (tier {t})")).unwrap_or_default();
    let mut ok = true;
    for m in clusters.keys() {
        if !input.contains(m) {
            ok = false;
            out.push((
                format!("C17|{algo}|medoid-not-an-input-point"),
                format!("medoid {m} is not one of the given points{at}"),
                json!({"tier": tier, "medoid": m}),
            ));
        }
    }
    let mut count: BTreeMap<usize, usize> = BTreeMap::new();
    for (m, members) in clusters.iter() {
        for p in members {
            if !input.contains(p) {
                ok = false;
                out.push((
                    format!("C17|{algo}|foreign-point"),
                    format!("cluster of medoid {m} contains {p} which is not one of the given points{at}"),
                    json!({"tier": tier, "medoid": m, "point": p}),
                ));
            } else {
                *count.entry(*p).or_default() += 1;
            }
        }
    }
    let multiple: Vec<usize> = count.iter().filter(|(_, c)| **c > 1).map(|(p, _)| *p).collect();
    if !multiple.is_empty() {
        ok = false;
        out.push((
            format!("C17|{algo}|clusters-overlap"),
            format!("{} point(s) (e.g. {}) occur more than once in the clusters{at}", multiple.len(), multiple[0]),
            json!({"tier": tier, "points": multiple}),
        ));
    }
    let missing: Vec<usize> = input.iter().copied().filter(|p| !count.contains_key(p)).collect();
    if !missing.is_empty() {
        ok = false;
        out.push((
            format!("C17|{algo}|point-missing"),
            format!("{} of {} given point(s) (e.g. {}) are in no cluster{at}", missing.len(), input.len(), missing[0]),
            json!({"tier": tier, "points": missing}),
        ));
    }
    (out, ok)
}

/// Closeness clause inside one group of clusters which were produced by one k-medoids run.
fn judge_closeness(
    algo: &str,
    group: &[(&usize, &Vec<usize>)],
    index: &HashMap<usize, usize>,
    matrix: &[Vec<f64>],
    tier: Option<usize>,
) -> Option<Finding> {
    let mut worst: Option<(usize, usize, usize, f64, f64)> = None;
    let mut count = 0usize;
    for (own, members) in group.iter() {
        let Some(&oi) = index.get(*own) else { continue };
        for p in members.iter() {
            let Some(&pi) = index.get(p) else { continue };
            let d_own = matrix[pi][oi];
            for (other, _) in group.iter() {
                if other == own {
                    continue;
                }
                let Some(&xi) = index.get(*other) else { continue };
                let d_other = matrix[pi][xi];
                if d_other < d_own {
                    count += 1;
                    if worst.is_none_or(|w| d_own - d_other > w.3 - w.4) {
                        worst = Some((*p, **own, **other, d_own, d_other));
                    }
                }
            }
        }
    }
    worst.map(|(p, own, other, d_own, d_other)| {
        (
            format!("C17|{algo}|point-closer-to-other-medoid"),
            format!(
                "point {p} is in the cluster of medoid {own} (distance {d_own}) but medoid {other} is closer (distance {d_other}){}; {count} such pair(s)",
                tier.map(|t| format!(" in tier {t}")).unwrap_or_default()
            ),
            json!({"tier": tier, "point": p, "own_medoid": own, "own_distance": d_own, "other_medoid": other, "other_distance": d_other, "pairs": count}),
        )
    })
}

fn km_artefact(case: &KmCase, case_seed: u64, matrix: &[Vec<f64>], result: Value, details: Value) -> Value {
    json!({
        "kind": if case.hierarchical { "hkmedoids" } else { "kmedoids" },
        "case_seed": case_seed,
        "input": serde_json::to_value(case).unwrap_or(Value::Null),
        "points_in_call_order": case.order.iter().map(|&i| case.ids[i]).collect::<Vec<_>>(),
        "distance_matrix_by_index": matrix,
        "result": result,
        "details": details,
    })
}

fn clusters_json(c: &Clusters) -> Value {
    Value::Object(c.iter().map(|(k, v)| (k.to_string(), json!(v))).collect())
}

fn observe_km_common(run: &Run, t: &str, case: &KmCase, origin: &str) {
    let n = case.ids.len();
    run.observe(&format!("{t}.origin"), origin);
    run.observe(&format!("{t}.n"), &size_bucket(n));
    run.observe(&format!("{t}.geometry"), &case.geometry.class);
    run.observe(&format!("{t}.ids"), &case.id_class);
}

fn check_km(run: &Run, case: &KmCase, case_seed: u64, origin: &str) -> bool {
    let n = case.ids.len();
    let k = case.param;
    let result = run_km(case);
    run.eval();
    observe_km_common(run, "kmedoids", case, origin);
    run.observe(
        "kmedoids.k",
        &if k > n { "k>n".to_string() } else if k == n { "k=n".to_string() } else if k == 0 { "k=0".to_string() } else { format!("k<n:{}", k.min(6)) },
    );
    let (_, index, matrix) = km_inputs(case);
    let mut violated = false;
    match result {
        Ok(clusters) => {
            run.observe("kmedoids.clusters", &clusters.len().min(8).to_string());
            if clusters.values().any(|m| m.is_empty()) {
                run.observe("kmedoids.features", "empty-cluster(observation-only)");
            }
            if clusters.iter().any(|(m, members)| !members.contains(m)) {
                run.observe("kmedoids.features", "medoid-outside-own-cluster(observation-only)");
            }
            if n > 0 && k > n && clusters.is_empty() {
                // k distinct medoids cannot exist; the code answers with an empty map (and a production caller filters
                // empty maps). The property's "partition of all points" cannot be met by any answer with k medoids:
                // boundary left undecided.
                run.observe("kmedoids.outcome", "k>n:empty-map(undecided)");
                run.inconclusive("kmedoids: k > number of points, empty map returned (k medoids cannot exist; boundary unspecified)");
                return false;
            }
            let (mut findings, _) = judge_partition("kmedoids", &case.ids, &clusters, None);
            let group: Vec<(&usize, &Vec<usize>)> = clusters.iter().collect();
            findings.extend(judge_closeness("kmedoids", &group, &index, &matrix, None));
            run.observe("kmedoids.outcome", if findings.is_empty() { "contract-held" } else { "contract-violated" });
            if n >= 3 && clusters.len() >= 2 {
                run.nontrivial(&format!("km|{:?}|{:?}|{:?}|{:?}|{k}", case.geometry.coords, case.geometry.matrix, case.ids, case.order));
                if origin == "random" && !SAMPLED[2].swap(true, Ordering::Relaxed) {
                    run.sample(json!({"kind": "kmedoids", "case_seed": case_seed, "geometry": case.geometry.class, "coords": case.geometry.coords,
                        "points": case.order.iter().map(|&i| case.ids[i]).collect::<Vec<_>>(), "k": k, "clusters": clusters_json(&clusters)}));
                }
            }
            for (sig, what, details) in findings {
                violated = true;
                run.violation(&sig, &what, km_artefact(case, case_seed, &matrix, clusters_json(&clusters), details));
            }
        }
        Err(p) => {
            violated = true;
            run.observe("kmedoids.outcome", "panic");
            run.violation(
                &format!("C17|kmedoids|panic|{}", p.file()),
                &format!("create_kmedoids panicked: {} at {}", vverif::clip(&p.message, 120), p.location),
                km_artefact(case, case_seed, &matrix, Value::Null, p.to_json()),
            );
        }
    }
    violated
}

/// Oracle for the hierarchical variant. A tier is one element of the returned Vec: a medoid → members map which
/// has to be a partition of all given points. The closeness clause is applied to the clusters which stem from
/// one k-medoids split: all clusters of tier 0, and for tier t > 0 the clusters lying in the same tier t-1 cluster
/// (a point is by construction not compared with medoids of foreign branches of the hierarchy).
fn judge_hkm(case: &KmCase, tiers: &[Clusters], index: &HashMap<usize, usize>, matrix: &[Vec<f64>], run: Option<&Run>) -> Vec<Finding> {
    let mut findings = Vec::new();
    let mut prev_parent: Option<HashMap<usize, usize>> = None; // point -> medoid of its cluster in the previous tier
    for (t, tier) in tiers.iter().enumerate() {
        let (f, is_partition) = judge_partition("hkmedoids", &case.ids, tier, Some(t));
        findings.extend(f);
        let mut groups: Vec<Vec<(&usize, &Vec<usize>)>> = Vec::new();
        if t == 0 {
            groups.push(tier.iter().collect());
        } else if let Some(parent) = prev_parent.as_ref() {
            let mut by_parent: BTreeMap<usize, Vec<(&usize, &Vec<usize>)>> = BTreeMap::new();
            let mut nested = true;
            for (m, members) in tier.iter() {
                let parents: BTreeSet<Option<&usize>> = members.iter().map(|p| parent.get(p)).collect();
                if parents.len() > 1 || parents.iter().any(|p| p.is_none()) {
                    nested = false;
                    break;
                }
                if let Some(Some(p)) = parents.into_iter().next() {
                    by_parent.entry(*p).or_default().push((m, members));
                }
            }
            if nested {
                groups.extend(by_parent.into_values());
            } else if let Some(run) = run {
                run.observe("hkmedoids.features", "tier-not-nested(observation-only)");
                run.inconclusive("hkmedoids: tier is not nested in the previous one, closeness clause not applicable");
            }
        } else if let Some(run) = run {
            run.inconclusive("hkmedoids: previous tier is not a partition, sibling groups unknown");
        }
        for group in groups.iter() {
            findings.extend(judge_closeness("hkmedoids", group, index, matrix, Some(t)));
        }
        prev_parent = if is_partition {
            Some(tier.iter().flat_map(|(m, members)| members.iter().map(move |p| (*p, *m))).collect())
        } else {
            None
        };
    }
    // one finding per signature is enough for one case
    let mut seen = BTreeSet::new();
    findings.retain(|f| seen.insert(f.0.clone()));
    findings
}

fn check_hkm(run: &Run, case: &KmCase, case_seed: u64, origin: &str) -> bool {
    let n = case.ids.len();
    let result = run_hkm(case);
    run.eval();
    observe_km_common(run, "hkmedoids", case, origin);
    run.observe("hkmedoids.max_tiers", &case.param.min(6).to_string());
    let (_, index, matrix) = km_inputs(case);
    let mut violated = false;
    match result {
        Ok(tiers) => {
            run.observe("hkmedoids.tiers-returned", &tiers.len().min(8).to_string());
            if tiers.is_empty() {
                run.observe("hkmedoids.outcome", "no-tier(vacuous)");
            }
            if tiers.iter().any(|t| t.values().any(|m| m.len() == 1)) {
                run.observe("hkmedoids.features", "singleton-cluster-propagated-or-created");
            }
            let findings = judge_hkm(case, &tiers, &index, &matrix, Some(run));
            if !tiers.is_empty() {
                run.observe("hkmedoids.outcome", if findings.is_empty() { "contract-held" } else { "contract-violated" });
            }
            if tiers.iter().any(|t| t.len() >= 2) {
                run.nontrivial(&format!("hkm|{:?}|{:?}|{:?}|{:?}|{}", case.geometry.coords, case.geometry.matrix, case.ids, case.order, case.param));
                if origin == "random" && tiers.len() >= 2 && !SAMPLED[3].swap(true, Ordering::Relaxed) {
                    run.sample(json!({"kind": "hkmedoids", "case_seed": case_seed, "geometry": case.geometry.class, "coords": case.geometry.coords,
                        "points": case.order.iter().map(|&i| case.ids[i]).collect::<Vec<_>>(), "max_tiers": case.param,
                        "tiers": tiers.iter().map(clusters_json).collect::<Vec<_>>()}));
                }
            }
            let result_json = Value::Array(tiers.iter().map(clusters_json).collect());
            for (sig, what, details) in findings {
                violated = true;
                run.violation(&sig, &what, km_artefact(case, case_seed, &matrix, result_json.clone(), details));
            }
        }
        Err(p) => {
            violated = true;
            run.observe("hkmedoids.outcome", "panic");
            // the single-point input is a defect class of its own (see report): keep it apart from other panics
            let sig = if n == 1 { "C17|hkmedoids|panic|single-point".to_string() } else { format!("C17|hkmedoids|panic|{}", p.file()) };
            run.violation(
                &sig,
                &format!("create_hierarchical_kmedoids panicked on {n} point(s), max_tiers {}: {} at {}", case.param, vverif::clip(&p.message, 120), p.location),
                km_artefact(case, case_seed, &matrix, Value::Null, p.to_json()),
            );
        }
    }
    violated
}

// ---------------------------------------------------------------------------------------------
// helpers

static SAMPLED: [AtomicBool; 4] = [AtomicBool::new(false), AtomicBool::new(false), AtomicBool::new(false), AtomicBool::new(false)];
static MAX_RATIO_MILLI: AtomicU64 = AtomicU64::new(0);
static MAX_STEPS: AtomicU64 = AtomicU64::new(0);
static TIME_US: [AtomicU64; 4] = [AtomicU64::new(0), AtomicU64::new(0), AtomicU64::new(0), AtomicU64::new(0)];

fn note_max(cell: &AtomicU64, v: u64) {
    cell.fetch_max(v, Ordering::Relaxed);
}

fn size_bucket(n: usize) -> String {
    match n {
        0..=4 => format!("n={n}"),
        5..=8 => "n=5..8".to_string(),
        9..=16 => "n=9..16".to_string(),
        17..=32 => "n=17..32".to_string(),
        _ => "n>32".to_string(),
    }
}

fn ratio_bucket(r: f64) -> &'static str {
    if r < 1. {
        "<1"
    } else if r < 5. {
        "<5"
    } else if r < 20. {
        "<20"
    } else if r < 200. {
        "<200"
    } else if r < 2000. {
        "<2000(bound)"
    } else {
        ">=2000"
    }
}

struct Watch {
    slots: Mutex<HashMap<u64, (String, Instant)>>,
}

impl Watch {
    fn enter(&self, id: u64, what: String) {
        self.slots.lock().unwrap().insert(id, (what, Instant::now()));
    }

    fn leave(&self, id: u64) {
        self.slots.lock().unwrap().remove(&id);
    }
}

fn start_watchdog(run: &'static Run, watch: &'static Watch) {
    std::thread::spawn(move || {
        loop {
            std::thread::sleep(Duration::from_millis(500));
            let stuck = watch.slots.lock().unwrap().values().find(|(_, since)| since.elapsed() > WATCHDOG_LIMIT).map(|(what, _)| what.clone());
            if let Some(what) = stuck {
                // wall-clock never decides a verdict: the run ends INCONCLUSIVE
                println!("INCONCLUSIVE property=C17 watchdog: {what} did not return within {} s", WATCHDOG_LIMIT.as_secs());
                run.inconclusive(&format!("watchdog: {what} did not return within {} s wall-clock", WATCHDOG_LIMIT.as_secs()));
                run.floor("cases finished within the wall-clock watchdog", 0, 1);
                run.finish();
            }
        }
    });
}

// ---------------------------------------------------------------------------------------------
// directed cases (independent of the seed): tiny and boundary inputs which must have been exercised

fn permutations(items: &[usize]) -> Vec<Vec<usize>> {
    if items.len() <= 1 {
        return vec![items.to_vec()];
    }
    let mut out = Vec::new();
    for i in 0..items.len() {
        let mut rest = items.to_vec();
        let first = rest.remove(i);
        for mut p in permutations(&rest) {
            p.insert(0, first);
            out.push(p);
        }
    }
    out
}

fn directed(run: &Run) {
    let mut rng = Rng::new(0xC17);
    // LKH: every start permutation of 0..n, n = 0..=5, on fixed geometries (complete neighbour lists as lkh_search builds them)
    let base: Vec<(&str, &str, Vec<[f64; 2]>)> = vec![
        ("grid-euclid", "euclid", vec![[0., 0.], [3., 0.], [3., 4.], [0., 4.], [1., 2.], [6., 1.]]),
        ("collinear", "euclid", vec![[0., 0.], [5., 0.], [1., 0.], [4., 0.], [2., 0.], [9., 0.]]),
        ("duplicates", "euclid", vec![[0., 0.], [2., 2.], [0., 0.], [2., 2.], [0., 0.], [5., 1.]]),
        ("grid-manhattan", "manhattan", vec![[0., 0.], [1., 1.], [0., 1.], [1., 0.], [2., 2.], [2., 0.]]),
    ];
    for (class, metric, coords) in base.iter() {
        for n in 0..=5usize {
            let geometry = Geometry { class: class.to_string(), metric: metric.to_string(), coords: coords[..n].to_vec(), matrix: vec![] };
            let ids: Vec<usize> = (0..n).collect();
            let matrix = geometry.dist_matrix();
            let neighbours = build_neighbours(&mut rng, &matrix, &ids, "complete-sorted");
            for path in permutations(&ids) {
                let case = LkhCase {
                    geometry: geometry.clone(),
                    ids: ids.clone(),
                    id_class: "dense".into(),
                    neighbours: neighbours.clone(),
                    nb_class: "complete-sorted".into(),
                    path,
                    path_class: "enumerated".into(),
                };
                check_lkh(run, &case, 0, "directed");
            }
        }
    }
    // DBSCAN: tiny inputs × min_points × eps
    let tiny_pts: [[i64; 2]; 4] = [[0, 0], [1, 0], [1, 0], [3, 0]];
    for n in 0..=4usize {
        for min_points in 1..=6usize {
            for eps in [0i64, 1, 2, 5] {
                for inclusive in [true, false] {
                    let pts = tiny_pts[..n].to_vec();
                    let neighbourhoods = (0..n)
                        .map(|i| {
                            (0..n)
                                .filter(|&j| {
                                    j == i || {
                                        let d = db_dist("manhattan", pts[i], pts[j]);
                                        if inclusive { d <= eps } else { d < eps }
                                    }
                                })
                                .collect()
                        })
                        .collect();
                    let case = DbCase {
                        dim: 1,
                        pts,
                        metric: "manhattan".into(),
                        eps,
                        inclusive,
                        min_points,
                        order: (0..n).collect(),
                        nb_order: "by-id".into(),
                        neighbourhoods,
                    };
                    check_dbscan(run, &case, 0, "directed");
                }
            }
        }
    }
    // k-medoids: tiny inputs (0..=5 points), distinct and duplicated, k and max_tiers 0..=5 and beyond n
    let km_geoms: Vec<(&str, Vec<[f64; 2]>)> = vec![
        ("collinear", vec![[0., 0.], [1., 0.], [5., 0.], [6., 0.], [20., 0.]]),
        ("all-same-point", vec![[3., 3.]; 5]),
        ("duplicates", vec![[0., 0.], [0., 0.], [4., 0.], [4., 0.], [0., 0.]]),
    ];
    for (class, coords) in km_geoms.iter() {
        for n in 0..=5usize {
            for param in 0..=6usize {
                for hierarchical in [false, true] {
                    let case = KmCase {
                        geometry: Geometry { class: class.to_string(), metric: "euclid".into(), coords: coords[..n].to_vec(), matrix: vec![] },
                        ids: (0..n).collect(),
                        id_class: "dense".into(),
                        order: (0..n).collect(),
                        hierarchical,
                        param,
                    };
                    if hierarchical { check_hkm(run, &case, 0, "directed") } else { check_km(run, &case, 0, "directed") };
                }
            }
        }
    }
}

// ---------------------------------------------------------------------------------------------
// random cases, replay, main

/// Phase 0: clustering cases (cheap), phase 1: LKH cases. Every case is reproducible from (seed, phase, i).
fn check_case(run: &Run, watch: &Watch, phase: u64, i: u64, case_seed: u64) {
    let mut rng = Rng::new(case_seed);
    let kind = if phase == 0 { 1 + rng.weighted(&[6., 1., 1.]) } else { 0 };
    let started = Instant::now();
    let slot = phase << 62 | i;
    match kind {
        0 if rng.chance(0.08) => {
            watch.enter(slot, format!("lkh operator case_seed={case_seed}"));
            check_lkh_operator(run, &mut rng, case_seed);
        }
        0 => {
            let case = gen_lkh_case(&mut rng);
            watch.enter(slot, format!("lkh case_seed={case_seed} n={}", case.ids.len()));
            check_lkh(run, &case, case_seed, "random");
        }
        1 if rng.chance(0.2) => {
            watch.enter(slot, format!("job-level dbscan case_seed={case_seed}"));
            check_job_dbscan(run, &mut rng, case_seed);
        }
        1 => {
            let case = gen_db_case(&mut rng);
            watch.enter(slot, format!("dbscan case_seed={case_seed} n={}", case.pts.len()));
            check_dbscan(run, &case, case_seed, "random");
        }
        2 => {
            let case = gen_km_case(&mut rng, false);
            watch.enter(slot, format!("kmedoids case_seed={case_seed} n={}", case.ids.len()));
            check_km(run, &case, case_seed, "random");
        }
        _ => {
            let case = gen_km_case(&mut rng, true);
            watch.enter(slot, format!("hkmedoids case_seed={case_seed} n={}", case.ids.len()));
            check_hkm(run, &case, case_seed, "random");
        }
    }
    watch.leave(slot);
    TIME_US[kind].fetch_add(started.elapsed().as_micros() as u64, Ordering::Relaxed);
}

/// Replay: (1) the deterministic oracle judges the recorded result, (2) the recorded literal input is executed
/// again (LKH and k-medoids iterate hash maps / use rayon splits, so a few repetitions are made) and judged.
fn replay(run: &Run, path: &std::path::Path) {
    let Ok(text) = std::fs::read_to_string(path) else {
        println!("INCONCLUSIVE property=C17 cannot read {}", path.display());
        std::process::exit(2);
    };
    let doc: Value = serde_json::from_str(&text).unwrap_or(Value::Null);
    let art = doc.get("artefact").cloned().unwrap_or(doc.clone());
    let kind = art.get("kind").and_then(|k| k.as_str()).unwrap_or("").to_string();
    let case_seed = art.get("case_seed").and_then(|s| s.as_u64()).unwrap_or(0);
    let input = art.get("input").cloned().unwrap_or(Value::Null);
    let recorded = art.get("result").cloned().unwrap_or(Value::Null);
    let parse_clusters = |v: &Value| -> Option<Clusters> {
        v.as_object().map(|o| {
            o.iter()
                .filter_map(|(k, v)| Some((k.parse::<usize>().ok()?, serde_json::from_value::<Vec<usize>>(v.clone()).ok()?)))
                .collect()
        })
    };
    const REPEAT: usize = 20;
    match kind.as_str() {
        "lkh" => {
            let Ok(case) = serde_json::from_value::<LkhCase>(input) else { return bad_artefact() };
            let matrix = case.geometry.dist_matrix();
            if let Ok(result) = serde_json::from_value::<Vec<Vec<usize>>>(recorded) {
                run.eval();
                for (sig, what, details) in judge_lkh(&case, &matrix, &result) {
                    println!("replay: recorded result judged again: {sig}");
                    run.violation(&sig, &what, lkh_artefact(&case, case_seed, &matrix, Some(&result), details));
                }
            }
            for _ in 0..REPEAT {
                if check_lkh(run, &case, case_seed, "replay") {
                    break;
                }
            }
        }
        "dbscan" => {
            let Ok(case) = serde_json::from_value::<DbCase>(input) else { return bad_artefact() };
            if let Ok(result) = serde_json::from_value::<Vec<Vec<usize>>>(recorded) {
                run.eval();
                for (sig, what, details) in judge_dbscan(&case, &result).0 {
                    println!("replay: recorded result judged again: {sig}");
                    run.violation(&sig, &what, db_artefact(&case, case_seed, Some(&result), details));
                }
            }
            check_dbscan(run, &case, case_seed, "replay");
        }
        "kmedoids" | "hkmedoids" => {
            let Ok(case) = serde_json::from_value::<KmCase>(input) else { return bad_artefact() };
            let (_, index, matrix) = km_inputs(&case);
            if case.hierarchical {
                if let Some(tiers) = recorded.as_array().map(|a| a.iter().filter_map(&parse_clusters).collect::<Vec<_>>()) {
                    run.eval();
                    for (sig, what, details) in judge_hkm(&case, &tiers, &index, &matrix, None) {
                        println!("replay: recorded result judged again: {sig}");
                        run.violation(&sig, &what, km_artefact(&case, case_seed, &matrix, recorded.clone(), details));
                    }
                }
            } else if let Some(clusters) = parse_clusters(&recorded) {
                run.eval();
                let (mut findings, _) = judge_partition("kmedoids", &case.ids, &clusters, None);
                let group: Vec<(&usize, &Vec<usize>)> = clusters.iter().collect();
                findings.extend(judge_closeness("kmedoids", &group, &index, &matrix, None));
                for (sig, what, details) in findings {
                    println!("replay: recorded result judged again: {sig}");
                    run.violation(&sig, &what, km_artefact(&case, case_seed, &matrix, recorded.clone(), details));
                }
            }
            for _ in 0..REPEAT {
                let violated = if case.hierarchical { check_hkm(run, &case, case_seed, "replay") } else { check_km(run, &case, case_seed, "replay") };
                if violated {
                    break;
                }
            }
        }
        _ => bad_artefact(),
    }
}

fn bad_artefact() {
    println!("INCONCLUSIVE property=C17 artefact has no usable kind/input");
    std::process::exit(2);
}

fn main() {
    let run: &'static Run = Box::leak(Box::new(Run::from_args(
        "C17",
        "exploration",
        "cases = seed-independent directed tiny inputs (all start permutations of n<=5 nodes; 0..5 points x k/max_tiers 0..6; tiny DBSCAN sets) \
         + seeded random cases: LKH on symmetric zero-diagonal cost matrices (float Euclid, integer grids with ties, duplicated points, collinear, \
         clustered, random non-metric integer matrices, uniform, all-zero), n=0..40, neighbour lists complete-sorted (as lkh_search) / shuffled / k-nearest, \
         start paths arbitrary permutations incl. first node != 0 and sparse node ids; DBSCAN on 1-D/2-D integer points (ties, duplicates as distinct items) \
         with explicit symmetric eps-neighbourhoods (<= and <), min_points 1..6, n, >n; k-medoids flat (k 0..n+5) and hierarchical (max_tiers 0..9) on the \
         same geometry classes. DISTINCT = distinct literal input (geometry, ids, order/path, parameters). NON-TRIVIAL = LKH: n>=4 and the returned tour is \
         strictly cheaper than the input; DBSCAN: >=1 cluster and (a border point, a noise point or >=2 clusters); k-medoids: n>=3 and >=2 clusters; \
         hierarchical: a tier with >=2 clusters.",
        40,
        420,
    )));
    if let Some(path) = run.replay.clone() {
        replay(run, &path);
        run.finish();
    }
    run.assume("costs/distances are finite, non-negative, symmetric with zero diagonal; nodes/points are distinct ids (duplicated locations are distinct items at distance 0)");
    run.assume("LKH termination is checked as bounded progress: at most max(2000*n^3, 200000) cost/neighbour queries per call (n <= 40); wall-clock (900 s per case) can only end the run INCONCLUSIVE");
    run.assume("DBSCAN neighbourhoods are symmetric and contain the point itself (as the doc comment of create_clusters requires); maximality of clusters is not part of the property and only observed");
    run.assume("k-medoids with k > number of points returns an empty map: counted as inconclusive (k medoids cannot exist); hierarchical closeness is judged among the clusters of one split (same parent cluster), partition clauses per tier");
    run.assume("an empty Vec returned by lkh_optimize / create_hierarchical_kmedoids is vacuous for 'returns permutations/partitions' and counted in the outcome tables");

    let watch: &'static Watch = Box::leak(Box::new(Watch { slots: Mutex::new(HashMap::new()) }));
    start_watchdog(run, watch);

    watch.enter(u64::MAX, "directed phase".to_string());
    directed(run);
    watch.leave(u64::MAX);

    // phase 0 (first 30 % of the budget): DBSCAN / k-medoids / hierarchical k-medoids; phase 1: LKH.
    // Separate phases so that expensive LKH cases (a call which runs into the step bound costs up to 1.3e8 steps)
    // can never starve the clustering workloads.
    let clustering_cases = run.by_tier(60_000u64, 600_000);
    par_for(16, clustering_cases, &|| !run.has_time_frac(0.3), &|i| {
        check_case(run, watch, 0, i, mix(mix(run.seed, 0xC17_0), i));
    });
    let lkh_cases = run.by_tier(60_000u64, 900_000);
    par_for(16, lkh_cases, &|| !run.has_time(), &|i| {
        check_case(run, watch, 1, i, mix(mix(run.seed, 0xC17_1), i));
    });

    run.note("lkh_max_steps_per_n3", json!(MAX_RATIO_MILLI.load(Ordering::Relaxed) as f64 / 1000.));
    run.note("lkh_max_steps", json!(MAX_STEPS.load(Ordering::Relaxed)));
    run.note(
        "thread_seconds_by_algorithm",
        json!({
            "lkh": TIME_US[0].load(Ordering::Relaxed) as f64 / 1e6,
            "dbscan": TIME_US[1].load(Ordering::Relaxed) as f64 / 1e6,
            "kmedoids": TIME_US[2].load(Ordering::Relaxed) as f64 / 1e6,
            "hkmedoids": TIME_US[3].load(Ordering::Relaxed) as f64 / 1e6,
        }),
    );

    // floors: "observed nothing" is never a pass
    run.floor("cases", run.evaluations(), 3000);
    run.floor("distinct non-trivial cases", run.distinct_nontrivial(), 500);
    for class in GEOMETRY_CLASSES.iter() {
        run.floor(&format!("lkh geometry {class}"), run.observed("lkh.geometry", class), 5);
    }
    for nb in ["complete-sorted", "complete-shuffled", "knn-1", "knn-2", "knn-3", "knn-5", "knn-8"] {
        run.floor(&format!("lkh neighbours {nb}"), run.observed("lkh.neighbours", nb), 5);
    }
    for n in ["n=0", "n=1", "n=2", "n=3", "n=4", "n>32"] {
        run.floor(&format!("lkh {n}"), run.observed("lkh.n", n), 5);
    }
    run.floor("lkh start paths with first node != 0", run.observed("lkh.start", "first-node-not-0"), 300);
    run.floor("lkh improved tours with first node != 0", run.observed("lkh.improved", "start-not-0"), 100);
    run.floor("lkh improved tours with first node 0", run.observed("lkh.improved", "start-0"), 20);
    run.floor("lkh sparse node ids", run.observed("lkh.ids", "sparse"), 20);
    run.floor("dbscan cases", run.observed("dbscan.origin", "random"), 300);
    run.floor("dbscan results with core+border+noise", run.observed("dbscan.shape", "core+border+noise"), 30);
    run.floor("dbscan results with >= 2 clusters", (2..=6).map(|c| run.observed("dbscan.clusters", &c.to_string())).sum(), 30);
    run.floor("LKHSearch operator cases on a vehicle of the second routing profile", run.observed("lkh-operator.vehicle-profile", "1"), 20);
    run.floor("LKHSearch operator cases which improved the tour", run.observed("lkh-operator.outcome", "improved"), 10);
    run.floor("job-level dbscan cases (create_job_clusters)", run.observed("dbscan.origin", "job-level"), 50);
    run.floor("job-level dbscan: coincident jobs next to jobs without location, with a cluster", run.observed("job-dbscan.features", "coincident jobs next to jobs without location, with a cluster"), 10);
    run.floor("dbscan min_points > n", run.observed("dbscan.min_points", ">n"), 5);
    run.floor("dbscan min_points 1", run.observed("dbscan.min_points", "1"), 5);
    run.floor("dbscan duplicate points", run.observed("dbscan.features", "duplicate-points"), 30);
    run.floor("kmedoids cases", run.observed("kmedoids.origin", "random"), 100);
    run.floor("kmedoids contract judged", run.observed("kmedoids.outcome", "contract-held") + run.observed("kmedoids.outcome", "contract-violated"), 100);
    for k in ["k=0", "k=n", "k>n"] {
        run.floor(&format!("kmedoids {k}"), run.observed("kmedoids.k", k), 5);
    }
    for n in ["n=0", "n=1", "n=2", "n=3"] {
        run.floor(&format!("kmedoids {n}"), run.observed("kmedoids.n", n), 3);
        run.floor(&format!("hkmedoids {n}"), run.observed("hkmedoids.n", n), 3);
    }
    run.floor("hkmedoids cases", run.observed("hkmedoids.origin", "random"), 100);
    run.floor(
        "hkmedoids results with >= 2 tiers",
        (2..=8).map(|c| run.observed("hkmedoids.tiers-returned", &c.to_string())).sum(),
        30,
    );
    for t in 0..=5 {
        run.floor(&format!("hkmedoids max_tiers {t}"), run.observed("hkmedoids.max_tiers", &t.to_string()), 5);
    }
    run.finish();
}
