//! C20 – insertion cost estimates equal true objective changes for additive objectives.
//!
//! On a finalised state (no `required`, pending jobs in `unassigned` with `UnassignmentInfo::Unknown`) the cost `c`
//! quoted by `eval_job_insertion_in_route(.., Concrete(p) / Any)` is compared, layer by layer, with
//! `fitness_k(after) - fitness_k(before)`, where `after` is produced by a real recreate step
//! (`InsertionHeuristic::process` with an `InsertionEvaluator` that hands out exactly that `InsertionSuccess` once).
//! Layers judged: minimize-unassigned, minimize-tours, minimize-distance, maximize-value; minimize-cost only when O3
//! finds no waiting time in the tour before and after (and in between for two-activity jobs).
//! O3 additionally supplies an independent expectation per layer; it is used to say *which side* is off, never to
//! raise a violation on its own.

use serde_json::{Value, json};
use std::collections::BTreeMap;
use std::sync::Mutex;
use vrp_core::construction::heuristics::{
    BestResultSelector, EvaluationContext, InsertionContext, InsertionEvaluator, InsertionHeuristic, InsertionPosition,
    InsertionResult, InsertionSuccess, JobSelector, LegSelection, ResultSelector, RouteContext, RouteSelector,
    eval_job_insertion_in_route,
};
use vrp_core::models::problem::Job;
use vrp_core::rosomaxa::prelude::HeuristicSolution;
use vverif::micro::*;
use vverif::{Rng, Run, mix, par_for};

const RULE: &str = "a case = one micro-problem (2-3 vehicles with own fixed / distance / time prices, jobs with values, metric integer routing, \
distance and duration possibly from different metrics) with a lexicographic goal made of single-objective layers in a generated order \
(every permutation of {minimize-unassigned, minimize-tours, minimize-distance|minimize-cost, maximize-value} in the grid family, random subsets in \
the random family), one or two tours built through the real state machinery, finalised (pending jobs in `unassigned` with Unknown); \
an evaluation = one layer of one insertion (job, target tour incl. the empty tour of an unused vehicle, Concrete(p) for every leg / Any) \
whose quoted cost component is compared with the realised fitness change after InsertionHeuristic::process applied exactly that InsertionSuccess. \
An insertion is DISTINCT by its literal content (tour stops, job, goal order, position) and NON-TRIVIAL when the tour has at least one activity \
or the insertion opens a new tour.";

struct Once(Mutex<Option<InsertionSuccess>>);

impl InsertionEvaluator for Once {
    fn evaluate_all(&self, _: &InsertionContext, _: &[&Job], _: &[&RouteContext], _: &LegSelection, _: &dyn ResultSelector) -> InsertionResult {
        match self.0.lock().unwrap().take() {
            Some(success) => InsertionResult::Success(success),
            None => InsertionResult::make_failure(),
        }
    }
}

/// Selectors without the default shuffling (keeps a case reproducible from its literal input).
struct PlainJobs;
impl JobSelector for PlainJobs {
    fn prepare(&self, _: &mut InsertionContext) {}
}
struct PlainRoutes;
impl RouteSelector for PlainRoutes {
    fn prepare(&self, _: &mut InsertionContext) {}
    fn select<'a>(&'a self, ctx: &'a InsertionContext, _: &[&'a Job]) -> Box<dyn Iterator<Item = &'a RouteContext> + 'a> {
        Box::new(ctx.solution.routes.iter().chain(ctx.solution.registry.next_route()))
    }
}

#[derive(Default)]
struct Acc {
    evals: u64,
    tables: BTreeMap<(&'static str, String), u64>,
    inconclusive: BTreeMap<String, u64>,
}

impl Acc {
    fn see(&mut self, table: &'static str, key: &str) {
        *self.tables.entry((table, key.to_string())).or_default() += 1;
    }
    fn undecided(&mut self, why: &str) {
        *self.inconclusive.entry(why.to_string()).or_default() += 1;
    }
    fn flush(self, run: &Run) {
        run.eval_n(self.evals);
        for ((table, key), n) in self.tables {
            run.observe_n(table, &key, n);
        }
        for (why, n) in self.inconclusive {
            for _ in 0..n {
                run.inconclusive(&why);
            }
        }
    }
}

fn close(a: f64, b: f64, scale: f64) -> bool {
    (a - b).abs() <= 1e-9 * scale.max(1.)
}

/// Waiting time of a tour, whatever its demand bookkeeping (used for the intermediate tour of a two-activity job).
fn waiting_of(spec: &MicroSpec, vehicle: usize, visits: &[Visit]) -> Option<f64> {
    let mut stops = spec.stops(visits);
    for s in stops.iter_mut() {
        s.kind = Kind::None;
    }
    let mut veh = spec.vehicles[vehicle].clone();
    veh.end_time = None;
    simulate(&spec.geo, &veh, &stops).ok().map(|r| r.waiting)
}

fn check_case(run: &Run, case: &Case, origin: &'static str, case_seed: Option<u64>) {
    let spec = &case.spec;
    for route in case.routes.iter() {
        if let Err(fail) = spec.simulate(route) {
            run.inconclusive(&format!("base tour infeasible for O3 ({})", fail.class()));
            return;
        }
        if route.visits.is_empty() {
            run.inconclusive("harness: left-over empty tour (outside the property's bound)");
            return;
        }
    }
    let built = run.guard(|| {
        let micro = Micro::build(spec)?;
        let ctx = micro.state(Micro::environment(), &case.routes, &[], &case.candidates)?;
        Ok::<_, String>((micro, ctx))
    });
    let (micro, base_ctx): (Micro, InsertionContext) = match built {
        Ok(Ok(v)) => v,
        Ok(Err(e)) => {
            run.inconclusive(&format!("harness: cannot build the case: {}", vverif::clip(&e, 80)));
            return;
        }
        Err(p) => {
            run.violation(
                &format!("C20|panic|state-build|{}", p.file()),
                &format!("panic while building a finalised state: {} at {}", p.message, p.location),
                json!({"origin": origin, "case_seed": case_seed, "case": case, "panic": p.to_json()}),
            );
            return;
        }
    };
    let mut acc = Acc::default();
    acc.see("origin", origin);
    acc.see("tours_in_state", &case.routes.len().to_string());
    acc.see("goal_order", &spec.layers.iter().map(|l| l.name()).collect::<Vec<_>>().join(" > "));
    for (k, layer) in spec.layers.iter().enumerate() {
        acc.see("layer_at_rank", &format!("{}@{k}", layer.name()));
    }

    // targets: every tour of the state + the empty tour of every unused vehicle
    let used: Vec<usize> = case.routes.iter().map(|r| r.vehicle).collect();
    let mut targets: Vec<RouteSpec> = case.routes.clone();
    for v in 0..spec.vehicles.len() {
        if !used.contains(&v) {
            targets.push(RouteSpec { vehicle: v, visits: vec![] });
        }
    }

    for &cand in case.candidates.iter() {
        let job_spec = &spec.jobs[cand];
        let job_class = if job_spec.is_multi() { "multi" } else { "single" };
        for target in targets.iter() {
            let is_new = target.visits.is_empty();
            let target_class = if is_new { "new-tour" } else { "existing-tour" };
            let n = target.visits.len();
            let positions: Vec<InsertionPosition> = (0..=n).map(InsertionPosition::Concrete).chain([InsertionPosition::Any]).collect();
            for (pi, position) in positions.into_iter().enumerate() {
                let pos_name = if pi <= n { format!("Concrete({pi})") } else { "Any".to_string() };
                let ctx = base_ctx.deep_copy();
                let art = |extra: Value| {
                    json!({
                        "origin": origin, "case_seed": case_seed, "case": case.reduced_to(cand),
                        "target_vehicle": target.vehicle, "position": pos_name, "details": extra,
                    })
                };
                // the quote
                let job = &micro.jobs[cand];
                let leg_selection = LegSelection::Exhaustive;
                let result_selector = BestResultSelector::default();
                let eval_ctx = EvaluationContext { goal: &micro.problem.goal, job, leg_selection: &leg_selection, result_selector: &result_selector };
                let actor = &micro.actors[target.vehicle];
                let quoted = run.guard(|| {
                    let route_ctx = ctx
                        .solution
                        .routes
                        .iter()
                        .chain(ctx.solution.registry.next_route())
                        .find(|rc| std::sync::Arc::ptr_eq(&rc.route().actor, actor))
                        .ok_or("no route context for the target vehicle")?;
                    Ok::<_, String>(eval_job_insertion_in_route(&ctx, &eval_ctx, route_ctx, position, InsertionResult::make_failure()))
                });
                let success = match quoted {
                    Ok(Ok(InsertionResult::Success(success))) => success,
                    Ok(Ok(InsertionResult::Failure(_))) => {
                        acc.see("quotes", &format!("{job_class}/{target_class}/failure"));
                        continue;
                    }
                    Ok(Err(e)) => {
                        acc.undecided(&format!("harness: {e}"));
                        continue;
                    }
                    Err(p) => {
                        run.violation(
                            &format!("C20|panic|eval|{}", p.file()),
                            &format!("eval_job_insertion_in_route panicked: {} at {}", p.message, p.location),
                            art(json!({"panic": p.to_json()})),
                        );
                        continue;
                    }
                };
                acc.see("quotes", &format!("{job_class}/{target_class}/success"));
                acc.see("position", if pi <= n { "concrete" } else { "any" });
                let quote: Vec<f64> = success.cost.iter().collect();
                // what O3 thinks of the insertion
                let (visits_after, at) = match micro.apply_success(&target.visits, cand, &success) {
                    Ok(v) => v,
                    Err(problem) => {
                        acc.undecided(&format!("malformed success (C06's business): {}", vverif::clip(&problem, 60)));
                        continue;
                    }
                };
                let rep_before = if is_new { None } else { spec.simulate(target).ok() };
                let rep_after = match spec.simulate(&RouteSpec { vehicle: target.vehicle, visits: visits_after.clone() }) {
                    Ok(rep) => rep,
                    Err(_) => {
                        acc.undecided("O3 finds the quoted insertion infeasible (C06's business)");
                        continue;
                    }
                };
                let mut waiting = rep_before.as_ref().map(|r| r.waiting).unwrap_or(0.) + rep_after.waiting;
                if job_spec.is_multi() {
                    let mut mid = target.visits.clone();
                    mid.insert(at[0], visits_after[at[0]]);
                    waiting += waiting_of(spec, target.vehicle, &mid).unwrap_or(1.);
                }

                // the realised change, through a real recreate step
                let before: Vec<f64> = micro.problem.goal.fitness(&ctx).collect();
                let applied = run.guard(|| {
                    InsertionHeuristic::new(Box::new(Once(Mutex::new(Some(success))))).process(
                        ctx,
                        &PlainJobs,
                        &PlainRoutes,
                        &LegSelection::Exhaustive,
                        &BestResultSelector::default(),
                    )
                });
                let after_ctx = match applied {
                    Ok(ctx) => ctx,
                    Err(p) => {
                        run.violation(
                            &format!("C20|panic|apply|{}", p.file()),
                            &format!("InsertionHeuristic::process panicked while applying a quoted insertion: {} at {}", p.message, p.location),
                            art(json!({"panic": p.to_json(), "quote": quote})),
                        );
                        continue;
                    }
                };
                let after: Vec<f64> = micro.problem.goal.fitness(&after_ctx).collect();
                // the step must have done exactly the quoted insertion
                let placed = after_ctx.solution.routes.iter().find(|rc| std::sync::Arc::ptr_eq(&rc.route().actor, actor)).map(|rc| {
                    rc.route().tour.job_activity_count() == visits_after.len() && rc.route().tour.has_job(&micro.jobs[cand])
                });
                if placed != Some(true) || after_ctx.solution.unassigned.contains_key(&micro.jobs[cand]) || !after_ctx.solution.required.is_empty() {
                    acc.undecided("harness: the recreate step did not carry out the quoted insertion");
                    continue;
                }
                if before.len() != spec.layers.len() || after.len() != spec.layers.len() || quote.len() != spec.layers.len() {
                    run.violation(
                        "C20|shape|components-vs-layers",
                        &format!("{} layers but {} quote components / {} fitness values", spec.layers.len(), quote.len(), before.len()),
                        art(json!({"quote": quote, "before": before, "after": after})),
                    );
                    continue;
                }

                acc.see("goal_width", if spec.layers.len() > 6 { "more than six layers" } else { "up to six layers" });
                // O3's independent expectation per layer
                let veh = &spec.vehicles[target.vehicle];
                let d_dist = rep_after.distance - rep_before.as_ref().map(|r| r.distance).unwrap_or(0.);
                let d_dur = rep_after.duration - rep_before.as_ref().map(|r| r.duration).unwrap_or(0.);
                let expect = |layer: &Layer| match layer {
                    Layer::Unassigned => -1.,
                    Layer::Unassigned2 => -vverif::micro::unassigned_weight(cand),
                    Layer::Tours | Layer::Tours2 => is_new as i32 as f64,
                    Layer::MaxTours => -(is_new as i32 as f64),
                    Layer::Distance => d_dist,
                    Layer::Cost => (if is_new { veh.fixed } else { 0. }) + veh.per_distance * d_dist + veh.per_time * d_dur,
                    Layer::Value | Layer::Value2 => -job_spec.value,
                };

                for (k, layer) in spec.layers.iter().enumerate() {
                    if *layer == Layer::Cost && waiting > 0. {
                        acc.see("cost_layer", "skipped: waiting time in the tour");
                        acc.undecided("minimize-cost with waiting time in the tour (outside the property's premise)");
                        continue;
                    }
                    if *layer == Layer::Cost {
                        acc.see("cost_layer", "judged: no waiting before/after");
                    }
                    acc.evals += 1;
                    let delta = after[k] - before[k];
                    let scale = before[k].abs().max(after[k].abs()).max(quote[k].abs());
                    acc.see("verdicts", &format!("{}/{target_class}/{job_class}", layer.name()));
                    if delta != 0. {
                        acc.see("nonzero_delta", layer.name());
                    }
                    if !close(delta, quote[k], scale) {
                        let e = expect(layer);
                        let side = match (close(quote[k], e, scale), close(delta, e, scale)) {
                            (false, true) => "estimate-off",
                            (true, false) => "fitness-off",
                            _ => "both-off-O3",
                        };
                        run.violation(
                            &format!("C20|layer={}|delta-mismatch|{job_class}|{target_class}|{side}", layer.name()),
                            &format!(
                                "{} at rank {k}: quoted {} but fitness changed by {} ({} -> {}); O3 expects {}; {job_class} job into {target_class} of {n} activities at {pos_name} (indices {at:?})",
                                layer.name(), quote[k], delta, before[k], after[k], e
                            ),
                            art(json!({"layer": layer.name(), "rank": k, "quote": quote, "before": before, "after": after, "o3_expected": e, "indices": at})),
                        );
                    }
                }
                if n > 0 || is_new {
                    let key = serde_json::to_string(&(&spec.geo, veh, &spec.stops(&target.visits), job_spec, &spec.layers, &pos_name)).unwrap_or_default();
                    run.nontrivial(&key);
                }
                if run.wants_sample() && n >= 2 && case.routes.len() == 2 {
                    run.sample(json!({
                        "origin": origin, "case": case.reduced_to(cand), "target_vehicle": target.vehicle, "position": pos_name,
                        "layers": spec.layers.iter().map(|l| l.name()).collect::<Vec<_>>(), "quote": quote, "fitness_before": before, "fitness_after": after,
                    }));
                }
            }
        }
    }
    acc.flush(run);
}


// ---------------------------------------------------------------------------------------------
// clause 2: goals composed by the pragmatic reader (single layers and `multi-objective` layers with strategy sum / weighted-sum)

/// Additive objective types of the pragmatic format (the cost objective is additive only without waiting time: such layers are not judged here).
fn is_additive(ty: &str) -> bool {
    matches!(ty, "minimize-unassigned" | "minimize-tours" | "maximize-tours" | "minimize-distance" | "maximize-value")
}

/// A generated objective list obeying E1600-E1607 made mostly of additive objectives, some of them folded into multi-objective layers.
fn gen_pragmatic_objectives(rng: &mut Rng, any_value: bool) -> Vec<Value> {
    let mut pool: Vec<Value> = Vec::new();
    pool.push(if rng.chance(0.3) { json!({"type": "minimize-unassigned", "breaks": *rng.pick(&[0.5f64, 1., 2.])}) } else { json!({"type": "minimize-unassigned"}) });
    pool.push(if rng.chance(0.75) { json!({"type": "minimize-tours"}) } else { json!({"type": "maximize-tours"}) });
    pool.push(if rng.chance(0.85) { json!({"type": "minimize-distance"}) } else { json!({"type": "minimize-cost"}) });
    if any_value {
        pool.push(json!({"type": "maximize-value"}));
    }
    rng.shuffle(&mut pool);
    // fold 2..3 neighbours into one multi-objective layer (another top-level objective always remains, see the C10 finding)
    if pool.len() >= 3 && rng.chance(0.75) {
        let n = rng.range_usize(2, (pool.len() - 1).min(3));
        let at = rng.usize_below(pool.len() - n + 1);
        let inner: Vec<Value> = pool.drain(at..at + n).collect();
        let strategy = if rng.chance(0.5) {
            json!({"name": "sum"})
        } else {
            let weights: Vec<f64> = (0..n).map(|_| *rng.pick(&[0.25f64, 0.5, 1., 2., 3.])).collect();
            json!({"name": "weighted-sum", "weights": weights})
        };
        pool.insert(at, json!({"type": "multi-objective", "strategy": strategy, "objectives": inner}));
    }
    pool
}

/// (types, weights) of the objectives of one top-level entry of the objective list.
fn layer_parts(layer: &Value) -> Vec<(String, f64)> {
    if layer["type"].as_str() == Some("multi-objective") {
        let inner = layer["objectives"].as_array().cloned().unwrap_or_default();
        let weights: Vec<f64> = match layer["strategy"]["weights"].as_array() {
            Some(w) => w.iter().map(|x| x.as_f64().unwrap_or(f64::NAN)).collect(),
            None => vec![1.; inner.len()],
        };
        inner.iter().zip(weights).map(|(o, w)| (o["type"].as_str().unwrap_or("?").to_string(), w)).collect()
    } else {
        vec![(layer["type"].as_str().unwrap_or("?").to_string(), 1.)]
    }
}

fn layer_name(layer: &Value) -> String {
    if layer["type"].as_str() == Some("multi-objective") {
        let parts: Vec<String> = layer_parts(layer).into_iter().map(|(t, _)| t).collect();
        format!("{}({})", layer["strategy"]["name"].as_str().unwrap_or("?"), parts.join("+"))
    } else {
        layer["type"].as_str().unwrap_or("?").to_string()
    }
}

fn check_pragmatic_case(run: &Run, case_seed: u64) {
    use vrp_core::construction::heuristics::UnassignmentInfo;
    use vrp_core::solver::RefinementContext;
    use vrp_core::solver::search::{Recreate, RecreateWithCheapest};
    use vverif::pragen;
    use vverif::solverun::{ReadOutcome, read_problem};

    let mut rng = Rng::new(case_seed);
    let mut cfg = pragen::GenCfg::default();
    cfg.min_jobs = 5;
    cfg.max_jobs = 14;
    // conditional jobs (breaks, reloads, recharge) move between required and ignored while a state is accepted: outside this clause
    cfg.p_breaks = 0.;
    cfg.p_reloads = 0.;
    cfg.p_unreachable = 0.;
    cfg.p_values = 0.5;
    cfg.p_objectives = 0.;
    let mut gp = pragen::generate(&mut rng, &cfg);
    let objectives = gen_pragmatic_objectives(&mut rng, gp.has("value"));
    gp.problem.as_object_mut().unwrap().insert("objectives".into(), Value::Array(objectives.clone()));
    let problem = match read_problem(&gp) {
        ReadOutcome::Ok(p) => p,
        ReadOutcome::Err(codes, _) => {
            run.inconclusive(&format!("pragmatic clause: generated document rejected ({})", codes.join(",")));
            return;
        }
        ReadOutcome::Panic(p) => {
            run.inconclusive(&format!("pragmatic clause: reader panicked (C10's business): {}", p.file()));
            return;
        }
    };
    let goal_text = objectives.iter().map(layer_name).collect::<Vec<_>>().join(" > ");
    let env = Micro::environment();
    // state: cheapest insertion of all jobs but 1-3 withheld ones, which are then listed as unassigned (Unknown)
    let built = run.guard(|| {
        let mut ctx = InsertionContext::new(problem.clone(), env.clone());
        // a fresh context lists every job as unassigned (Unknown); a recreate step queues those again
        let mut jobs: Vec<Job> = ctx.solution.unassigned.keys().cloned().chain(ctx.solution.required.iter().cloned()).collect();
        jobs.sort_by_key(vverif::histories::job_id);
        let mut held: Vec<Job> = Vec::new();
        for _ in 0..rng.range_usize(1, 3) {
            if jobs.len() > 2 {
                held.push(jobs.remove(rng.usize_below(jobs.len())));
            }
        }
        ctx.solution.required.retain(|j| !held.contains(j));
        ctx.solution.unassigned.retain(|j, _| !held.contains(j));
        ctx.solution.ignored.extend(held.iter().cloned());
        let (rctx, _): (RefinementContext, String) = vverif::histories::new_refinement_ctx(problem.clone(), env.clone(), &mut Rng::new(1));
        let mut ctx = RecreateWithCheapest::new(env.random.clone()).run(&rctx, ctx);
        ctx.solution.ignored.retain(|j| !held.contains(j));
        ctx.solution.unassigned.extend(held.iter().cloned().map(|j| (j, UnassignmentInfo::Unknown)));
        problem.goal.accept_solution_state(&mut ctx.solution);
        (ctx, held)
    });
    let (base_ctx, held): (InsertionContext, Vec<Job>) = match built {
        Ok(v) => v,
        Err(p) => {
            run.inconclusive(&format!("pragmatic clause: state construction panicked (C04/C05's business): {}", p.file()));
            return;
        }
    };
    if !base_ctx.solution.required.is_empty() || base_ctx.solution.routes.is_empty() {
        run.inconclusive("pragmatic clause: no finalised state with tours");
        return;
    }
    let mut acc = Acc::default();
    acc.see("origin", "pragmatic");
    acc.see("pragmatic_state", &format!("held={} routes={}", held.len(), base_ctx.solution.routes.len().min(5)));
    acc.see("pragmatic_goal", &goal_text);
    for job in held.iter() {
        let job_class = if job.as_multi().is_some() { "multi" } else { "single" };
        let n_routes = base_ctx.solution.routes.len();
        // targets: every tour + the next free vehicle
        for target in 0..=n_routes {
            let ctx = base_ctx.deep_copy();
            let leg_selection = LegSelection::Exhaustive;
            let result_selector = BestResultSelector::default();
            let eval_ctx = EvaluationContext { goal: &problem.goal, job, leg_selection: &leg_selection, result_selector: &result_selector };
            let quoted = run.guard(|| {
                let route_ctx = ctx.solution.routes.iter().chain(ctx.solution.registry.next_route()).nth(target)?;
                Some((
                    eval_job_insertion_in_route(&ctx, &eval_ctx, route_ctx, InsertionPosition::Any, InsertionResult::make_failure()),
                    route_ctx.route().actor.clone(),
                    route_ctx.route().tour.job_count(),
                ))
            });
            let art = |extra: Value| json!({"origin": "pragmatic", "case_seed": case_seed, "problem": gp.problem, "matrices": gp.matrices, "shape": gp.shape(), "job": vverif::histories::job_id(job), "target": target, "details": extra});
            let (success, actor, jobs_before) = match quoted {
                Ok(Some((InsertionResult::Success(success), actor, n))) => (success, actor, n),
                Ok(Some((InsertionResult::Failure(_), _, _))) => {
                    acc.see("pragmatic_quotes", "failure");
                    continue;
                }
                Ok(None) => continue,
                Err(p) => {
                    run.violation(&format!("C20|pragmatic|panic|eval|{}", p.file()), &format!("eval_job_insertion_in_route panicked: {} at {}", p.message, p.location), art(json!({"panic": p.to_json()})));
                    continue;
                }
            };
            let is_new = jobs_before == 0;
            let target_class = if is_new { "new-tour" } else { "existing-tour" };
            acc.see("pragmatic_quotes", &format!("{job_class}/{target_class}/success"));
            let quote: Vec<f64> = success.cost.iter().collect();
            let before: Vec<f64> = problem.goal.fitness(&ctx).collect();
            let applied = run.guard(|| {
                InsertionHeuristic::new(Box::new(Once(Mutex::new(Some(success))))).process(ctx, &PlainJobs, &PlainRoutes, &LegSelection::Exhaustive, &BestResultSelector::default())
            });
            let after_ctx = match applied {
                Ok(ctx) => ctx,
                Err(p) => {
                    run.violation(&format!("C20|pragmatic|panic|apply|{}", p.file()), &format!("InsertionHeuristic::process panicked while applying a quoted insertion: {} at {}", p.message, p.location), art(json!({"panic": p.to_json(), "quote": quote})));
                    continue;
                }
            };
            let after: Vec<f64> = problem.goal.fitness(&after_ctx).collect();
            let placed = after_ctx.solution.routes.iter().find(|rc| std::sync::Arc::ptr_eq(&rc.route().actor, &actor)).is_some_and(|rc| rc.route().tour.has_job(job) && rc.route().tour.job_count() == jobs_before + 1);
            let others_kept = held.iter().filter(|j| *j != job).all(|j| after_ctx.solution.unassigned.contains_key(j));
            if !placed || after_ctx.solution.unassigned.contains_key(job) || !after_ctx.solution.required.is_empty() || !others_kept || after_ctx.solution.routes.len() != n_routes + is_new as usize {
                acc.undecided("harness: the recreate step did not carry out exactly the quoted insertion");
                continue;
            }
            let parts: Vec<Vec<(String, f64)>> = objectives.iter().map(layer_parts).collect();
            let width: usize = parts.iter().map(|p| p.len()).sum();
            if quote.len() > objectives.len() || before.len() != width || after.len() != width {
                run.violation("C20|pragmatic|shape|components-vs-layers", &format!("{} layers / {} objectives but {} quote components / {} fitness values", objectives.len(), width, quote.len(), before.len()), art(json!({"quote": quote, "before": before, "after": after, "goal": goal_text})));
                continue;
            }
            let mut at = 0usize;
            for (k, layer) in objectives.iter().enumerate() {
                let lp = &parts[k];
                let (lo, hi) = (at, at + lp.len());
                at = hi;
                let kind = if lp.len() == 1 { "single".to_string() } else { layer["strategy"]["name"].as_str().unwrap_or("?").to_string() };
                if !lp.iter().all(|(t, _)| is_additive(t)) {
                    acc.see("pragmatic_layers", &format!("{kind}: not judged (holds a non-additive objective)"));
                    continue;
                }
                // a missing trailing component of an insertion cost counts as zero
                let q = quote.get(k).copied().unwrap_or(0.);
                let delta: f64 = (lo..hi).zip(lp.iter()).map(|(i, (_, w))| w * (after[i] - before[i])).sum();
                let scale = (lo..hi).map(|i| before[i].abs().max(after[i].abs())).fold(q.abs(), f64::max);
                acc.evals += 1;
                acc.see("pragmatic_layers", &format!("{kind}: judged"));
                acc.see("pragmatic_verdicts", &format!("{}/{target_class}/{job_class}", layer_name(layer)));
                if delta != 0. {
                    acc.see("pragmatic_nonzero_delta", &kind);
                }
                if !close(delta, q, scale) {
                    run.violation(
                        &format!("C20|pragmatic|layer={}|delta-mismatch|{job_class}|{target_class}", layer_name(layer)),
                        &format!("{} at rank {k}: quoted {q} but the (weighted) fitness of the layer changed by {delta}; goal {goal_text}", layer_name(layer)),
                        art(json!({"rank": k, "quote": quote, "before": before, "after": after, "goal": goal_text})),
                    );
                }
            }
            run.nontrivial(&format!("pragmatic/{case_seed}/{}/{target}", vverif::histories::job_id(job)));
            if run.wants_sample() && objectives.iter().any(|l| l["type"] == "multi-objective") {
                run.sample(json!({"origin": "pragmatic", "shape": gp.shape(), "goal": goal_text, "job": vverif::histories::job_id(job), "target": target_class, "quote": quote, "fitness_before": before, "fitness_after": after}));
            }
        }
    }
    acc.flush(run);
}

// ---------------------------------------------------------------------------------------------
// workloads

fn permutations<T: Clone>(items: &[T]) -> Vec<Vec<T>> {
    if items.len() <= 1 {
        return vec![items.to_vec()];
    }
    let mut all = Vec::new();
    for i in 0..items.len() {
        let mut rest = items.to_vec();
        let x = rest.remove(i);
        for mut p in permutations(&rest) {
            p.insert(0, x.clone());
            all.push(p);
        }
    }
    all
}

fn product(values: usize, len: usize) -> Vec<Vec<usize>> {
    let mut all = vec![vec![]];
    for _ in 0..len {
        all = all.into_iter().flat_map(|p| (0..values).map(move |v| p.iter().copied().chain([v]).collect())).collect();
    }
    all
}

#[derive(Clone, Debug)]
struct GridDesc {
    layers: Vec<Layer>,
    closed: bool,
    locs: Vec<usize>,
}

fn grid_descs() -> Vec<GridDesc> {
    let mut descs = Vec::new();
    for (transport, tours) in [(Layer::Distance, Layer::Tours), (Layer::Cost, Layer::Tours), (Layer::Distance, Layer::MaxTours), (Layer::Cost, Layer::MaxTours)] {
        for layers in permutations(&[Layer::Unassigned, tours, transport, Layer::Value]) {
            for closed in [true, false] {
                for n in 1..=2usize {
                    for locs in product(3, n) {
                        descs.push(GridDesc { layers: layers.clone(), closed, locs: locs.iter().map(|l| l + 1).collect() });
                    }
                }
            }
        }
    }
    descs
}

fn single(loc: usize, dur: f64, windows: Vec<Win>, kind: Kind, size: i32, value: f64) -> JobSpec {
    JobSpec { tasks: vec![TaskSpec { places: vec![PlaceSpec { loc, dur, windows }], kind, size }], value }
}

fn build_grid_case(desc: &GridDesc) -> Case {
    // line 0..3 for distances, durations twice as long
    let geo = Geo { coords: vec![(0, 0), (1, 0), (2, 0), (3, 0)], dist: Metric::Line, dur: Metric::Line, dur_scale: 2, tilt: false };
    let v0 = VehicleSpec { start_loc: 0, start_time: 0., end_loc: desc.closed.then_some(0), end_time: None, capacity: 10, fixed: 7., per_distance: 2., per_time: 1., max_distance: None, max_duration: None, tour_size: None };
    let v1 = VehicleSpec { start_loc: 2, start_time: 0., end_loc: (!desc.closed).then_some(3), end_time: None, capacity: 10, fixed: 100., per_distance: 1., per_time: 0.5, max_distance: None, max_duration: None, tour_size: None };
    let mut jobs = Vec::new();
    let mut visits = Vec::new();
    for (slot, at) in desc.locs.iter().enumerate() {
        jobs.push(single(*at, 1., vec![(0., None)], if slot % 2 == 0 { Kind::Delivery } else { Kind::Pickup }, 1, 3.));
        visits.push(Visit { job: slot, task: 0, place: 0, window: 0 });
    }
    let mut candidates = Vec::new();
    for at in [0usize, 1, 3] {
        for dur in [0., 2.] {
            jobs.push(single(at, dur, vec![(0., None)], Kind::Pickup, 1, 5. + at as f64));
            candidates.push(jobs.len() - 1);
        }
    }
    // one candidate that has to wait, one pickup-delivery job
    jobs.push(single(2, 1., vec![(50., Some(60.))], Kind::None, 0, 1.));
    candidates.push(jobs.len() - 1);
    let pickup = TaskSpec { places: vec![PlaceSpec { loc: 3, dur: 1., windows: vec![(0., None)] }], kind: Kind::DynPickup, size: 2 };
    let delivery = TaskSpec { places: vec![PlaceSpec { loc: 1, dur: 0., windows: vec![(0., None)] }], kind: Kind::DynDelivery, size: 2 };
    jobs.push(JobSpec { tasks: vec![pickup, delivery], value: 11. });
    candidates.push(jobs.len() - 1);
    let spec = MicroSpec { geo, vehicles: vec![v0, v1], jobs, layers: desc.layers.clone(), capacity_first: desc.locs.len() % 2 == 0 };
    Case { spec, routes: vec![RouteSpec { vehicle: 0, visits }], candidates }
}

fn random_case(case_seed: u64) -> Option<Case> {
    let mut rng = Rng::new(case_seed);
    let mut layers = vec![*rng.pick(&[Layer::Distance, Layer::Cost])];
    let tours = if rng.chance(0.3) { Layer::MaxTours } else { Layer::Tours };
    for l in [Layer::Unassigned, tours, Layer::Value] {
        if rng.chance(0.7) {
            layers.push(l);
        }
    }
    // wide goals: more than six layers (second instances of three layers under other names, both tour layers)
    if rng.chance(0.2) {
        for l in [Layer::Unassigned, Layer::Tours, Layer::MaxTours, Layer::Value, Layer::Unassigned2, Layer::Tours2, Layer::Value2] {
            if !layers.contains(&l) {
                layers.push(l);
            }
        }
    }
    rng.shuffle(&mut layers);
    let cfg = GenCfg {
        max_activities: 8,
        routes: if rng.chance(0.5) { 1 } else { 2 },
        spare_vehicle: rng.chance(0.8),
        candidates: rng.range_usize(2, 5),
        multi_share: 0.3,
        triple_share: 0.,
        layers,
        priced: true,
        p_limits: 0.,
    };
    // the property's bound: no left-over empty tours in the state
    for _ in 0..20 {
        let case = gen_case(&mut rng, &cfg);
        if case.routes.iter().all(|r| !r.visits.is_empty()) {
            return Some(case);
        }
    }
    None
}

fn replay(run: &Run, path: &std::path::Path) {
    let doc: Value = std::fs::read_to_string(path).ok().and_then(|t| serde_json::from_str(&t).ok()).unwrap_or(Value::Null);
    let art = doc.get("artefact").cloned().unwrap_or(Value::Null);
    if art.get("origin").and_then(|o| o.as_str()) == Some("pragmatic") {
        match art.get("case_seed").and_then(|s| s.as_u64()) {
            Some(case_seed) => {
                println!("re-running the pragmatic-goal case {case_seed} of {} (generator, state and quotes are rebuilt from the case seed)", path.display());
                check_pragmatic_case(run, case_seed);
            }
            None => run.inconclusive("replay: pragmatic artefact without case seed"),
        }
        return;
    }
    match art.get("case").cloned().and_then(|c| serde_json::from_value::<Case>(c).ok()) {
        Some(case) => {
            println!("replaying the literal case of {} (all targets and positions)", path.display());
            check_case(run, &case, "replay", art.get("case_seed").and_then(|s| s.as_u64()));
        }
        None => run.inconclusive("replay: artefact holds no literal case"),
    }
}

fn main() {
    let run = Run::from_args("C20", "exploration", RULE, 45, 420);
    if let Some(path) = run.replay.clone() {
        replay(&run, &path);
        run.finish();
    }
    run.assume("bound: lexicographic goals made of single-objective layers only; routing metric, time independent, integer valued; no left-over empty tours in a state");
    run.assume("minimize-cost is judged only when O3 finds zero waiting time in the target tour before and after the insertion (and after the first activity of a pickup-delivery job); one price for driving, service and waiting time (VehicleBuilder::set_duration_cost)");
    run.assume("the vehicle's latest departure equals its earliest one: no departure-time shift; the fixed cost is set on the public `Vehicle::costs.fixed` field (the builder has no setter)");
    run.assume("the state is finalised: `required` empty, pending jobs in `unassigned` with UnassignmentInfo::Unknown; the insertion is applied by InsertionHeuristic::process with an evaluator returning exactly the quoted InsertionSuccess once");
    run.assume("insertions that O3 finds infeasible or malformed are C06's subject and counted inconclusive here");
    run.assume("clause 2 (pragmatic goals): generated pragmatic problems without breaks / reloads / recharge / unreachable locations whose objective list is made of minimize-unassigned, minimize-tours|maximize-tours, minimize-distance (15 %: minimize-cost, not judged), maximize-value, 75 % with two or three of them folded into a multi-objective layer (sum or weighted-sum); the state is a cheapest-insertion solution with 1-3 withheld jobs listed as unassigned (Unknown); a layer is judged when all its objectives are additive: its quote must equal the (weighted) sum of the realised fitness changes of its objectives; position Any only");

    let descs = grid_descs();
    run.note("grid_family_cases", json!(descs.len()));
    par_for(16, descs.len() as u64, &|| !run.has_time_frac(0.5), &|i| {
        check_case(&run, &build_grid_case(&descs[i as usize]), "grid", None);
    });
    let grid_done = run.observed("origin", "grid");

    let cases = run.by_tier(60_000u64, 3_000_000);
    par_for(16, cases, &|| !run.has_time(), &|i| {
        let case_seed = mix(run.seed, i);
        match random_case(case_seed) {
            Some(case) => check_case(&run, &case, "random", Some(case_seed)),
            None => run.inconclusive("generator: no case without an empty tour in 20 draws"),
        }
    });

    // clause 2: goals composed by the pragmatic reader
    let pcases = run.by_tier(8_000u64, 400_000);
    let pstart = std::time::Instant::now();
    let pbudget = run.by_tier(25u64, 240);
    par_for(16, pcases, &|| pstart.elapsed().as_secs() >= pbudget, &|i| check_pragmatic_case(&run, mix(run.seed ^ 0x9e37_79b9, i)));
    run.floor("pragmatic clause: layer verdicts", run.observed("pragmatic_layers", "single: judged") + run.observed("pragmatic_layers", "sum: judged") + run.observed("pragmatic_layers", "weighted-sum: judged"), 2_000);
    run.floor("pragmatic clause: sum layers judged", run.observed("pragmatic_layers", "sum: judged"), 200);
    run.floor("pragmatic clause: weighted-sum layers judged", run.observed("pragmatic_layers", "weighted-sum: judged"), 200);
    run.floor("pragmatic clause: non-zero change of a multi-objective layer", run.observed("pragmatic_nonzero_delta", "sum") + run.observed("pragmatic_nonzero_delta", "weighted-sum"), 200);

    run.floor("layer verdicts", run.evaluations(), 50_000);
    run.floor("grid family cases completed", grid_done, descs.len() as u64);
    run.floor("random cases", run.observed("origin", "random"), 1_000);
    run.floor("quotes under goals with more than six layers", run.observed("goal_width", "more than six layers"), 1_000);
    for layer in [Layer::Unassigned, Layer::Tours, Layer::MaxTours, Layer::Distance, Layer::Cost, Layer::Value] {
        for target in ["existing-tour", "new-tour"] {
            for job in ["single", "multi"] {
                let key = format!("{}/{target}/{job}", layer.name());
                run.floor(&format!("verdicts {key}"), run.observed("verdicts", &key), 100);
            }
        }
        run.floor(&format!("non-zero realised change of {}", layer.name()), run.observed("nonzero_delta", layer.name()), 100);
        for rank in 0..4 {
            let key = format!("{}@{rank}", layer.name());
            run.floor(&format!("layer {key}"), run.observed("layer_at_rank", &key), 10);
        }
    }
    run.floor("states with two tours", run.observed("tours_in_state", "2"), 100);
    run.floor("goal orders", run.observed_keys("goal_order").len() as u64, 48);
    run.finish();
}
