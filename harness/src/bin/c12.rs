//! C12 – the bundled solution checker accepts valid solutions and rejects injected breaches (fault enumeration).
//!
//! For recorded (P, S) that the independent replayer O1 calls valid, `CheckerContext::new(..).check()` must be Ok.
//! Then single-breach mutants of every class named by the property are produced at every applicable site; each mutant is
//! re-classified by O1 (mutants O1 still calls valid are discarded as equivalent) and all others must make `check()` fail.
use serde_json::{Value, json};
use std::io::BufReader;
use std::sync::Arc;
use vrp_core::models::Problem;
use vrp_pragmatic::checker::CheckerContext;
use vrp_pragmatic::format::problem::{deserialize_matrix, deserialize_problem};
use vrp_pragmatic::format::solution::deserialize_solution;
use vverif::pragen::{GenCfg, PragProblem, generate};
use vverif::replay::{PProblem, replay_parsed};
use vverif::solvecheck::{CaseOutcome, derive_relations, solve_and_replay};
use vverif::solverun::{ReadOutcome, gen_config, read_problem, simple_config};
use vverif::timeutil::{fmt_time, parse_time};
use vverif::{Rng, Run, clip, mix, par_for};

enum Verdict {
    Accepts,
    Rejects(Vec<String>),
    Panic(vverif::PanicInfo),
    /// documents do not deserialise into the checker's model (mutant outside the format)
    NotLoadable(String),
}

fn run_checker(core: Arc<Problem>, problem: &Value, matrices: &[Value], solution: &Value) -> Verdict {
    let p_text = serde_json::to_string(problem).unwrap();
    let s_text = serde_json::to_string(solution).unwrap();
    let m_texts: Vec<String> = matrices.iter().map(|m| serde_json::to_string(m).unwrap()).collect();
    let res = vverif::guard(move || -> Result<Result<(), Vec<String>>, String> {
        let api_problem = deserialize_problem(BufReader::new(p_text.as_bytes())).map_err(|e| format!("problem: {e}"))?;
        let api_solution = deserialize_solution(BufReader::new(s_text.as_bytes())).map_err(|e| format!("solution: {e}"))?;
        let mut ms = Vec::new();
        for m in m_texts.iter() {
            ms.push(deserialize_matrix(BufReader::new(m.as_bytes())).map_err(|e| format!("matrix: {e}"))?);
        }
        let ctx = match CheckerContext::new(core, api_problem, Some(ms), api_solution) {
            Ok(c) => c,
            Err(errs) => return Ok(Err(errs.iter().map(|e| e.to_string()).collect())),
        };
        Ok(ctx.check().map_err(|errs| errs.iter().map(|e| e.to_string()).collect()))
    });
    match res {
        Err(p) => Verdict::Panic(p),
        Ok(Err(e)) => Verdict::NotLoadable(e),
        Ok(Ok(Ok(()))) => Verdict::Accepts,
        Ok(Ok(Err(errs))) => Verdict::Rejects(errs),
    }
}

fn norm_msg(m: &str) -> String {
    // the checker rule that speaks: its message without quoted ids, numbers and punctuation, first five words
    // ("load mismatch at stop 3 in tour 'x'" and "load mismatch at stops 3, 5 in tour 'x'" are one rule)
    let mut out = String::new();
    let mut in_quote = false;
    for c in m.chars() {
        if c == '\'' {
            in_quote = !in_quote;
            continue;
        }
        if in_quote || c.is_ascii_digit() || ",:;.()[]{}<>".contains(c) {
            continue;
        }
        out.push(c);
    }
    let words: Vec<String> = out.split_whitespace().map(|w| if w == "stops" { "stop".to_string() } else { w.to_string() }).take(5).collect();
    let mut rule = words.join(" ");
    // the break count rule fails in two directions with different causes: more breaks expected than used + reported, or fewer
    if rule == "amount of breaks does not" {
        let nums: Vec<i64> = m.split('\'').filter_map(|t| t.parse().ok()).collect();
        if let [expected, got, ..] = nums[..] {
            rule.push_str(if expected > got { "|expected-more" } else { "|expected-fewer" });
        }
    }
    rule
}

/// The message of the checker rule a mutation class aims at (only classes for which the unchanged checker names that
/// rule for every mutant, measured over several seeds, are listed).
fn expected_rule(class: &str) -> Option<&'static [&'static str]> {
    Some(match class {
        "job-split-over-tours" | "job-split-over-tours|other-shift-of-same-vehicle" => &["job served in multiple tours"],
        "assigned-and-unassigned" => &["job present as assigned and unassigned"],
        "duplicated-job" => &["not all tasks served for"],
        "unknown-job" => &["cannot match activities to jobs", "cannot find job with id"],
        "limit-breach-tour-size" => &["tour size limit violation"],
        "limit-breach-distance" => &["max distance limit violation"],
        "limit-breach-duration" => &["shift time limit violation"],
        "relation-order-broken" => &["does not follow strict rule"],
        "relation-vehicle-broken|pinned-vehicle-has-tour" | "relation-vehicle-broken|pinned-vehicle-idle" => &["has jobs assigned to another tour"],
        "arrival-mismatch" => &["arrival time mismatch for"],
        "distance-mismatch" => &["distance mismatch for"],
        "tour-statistic-mismatch" | "tour-statistic-mismatch|consistent-with-overall" => &["distance mismatch for tour statistic", "duration mismatch for tour statistic"],
        "overall-statistic-mismatch" => &["solution statistic mismatch"],
        "load-above-capacity|regular-tour" => &["load exceeds capacity in tour"],
        "load-misreported|regular-tour" => &["load mismatch", "load exceeds capacity in tour"],
        // (the break rule proper; in a single-stop tour no other rule looks at the break at all)
        "break-misplaced" => &["cannot match all breaks", "break visit time", "cannot find break for tour"],
        // dropped-job: no single rule names it for every mutant (load / job count / arrival / task count), not listed
        _ => return None,
    })
}

const ALL_RULE_TEXTS: &[&str] = &[
    "job served in multiple tours", "job present as assigned and unassigned", "not all tasks served for", "cannot find job with id", "tour size limit violation",
    "max distance limit violation", "shift time limit violation", "does not follow strict rule", "has jobs assigned to another tour", "arrival time mismatch for",
    "distance mismatch for", "distance mismatch for tour statistic", "duration mismatch for tour statistic", "solution statistic mismatch", "load exceeds capacity in tour",
    "load mismatch", "cannot find break for tour", "cannot match all breaks", "break visit time", "cannot match activities to jobs",
];

struct Mutant {
    class: &'static str,
    site: String,
    problem: Option<Value>,
    solution: Value,
}

fn shift_time(s: &str, delta: i64) -> Option<String> {
    parse_time(s).map(|t| fmt_time(t + delta))
}

fn customer(a: &Value) -> bool {
    matches!(a["type"].as_str(), Some("pickup" | "delivery" | "service" | "replacement"))
}

/// All single-breach mutants of the classes the property lists, at every applicable site (capped per class by `cap`).
fn mutants(rng: &mut Rng, gp: &PragProblem, parsed: &PProblem, solution: &Value, cap: usize) -> Vec<Mutant> {
    let mut out: Vec<Mutant> = Vec::new();
    let tours = solution["tours"].as_array().cloned().unwrap_or_default();
    let mut push = |class: &'static str, site: String, problem: Option<Value>, sol: Value, out: &mut Vec<Mutant>| {
        out.push(Mutant { class, site, problem, solution: sol });
    };
    for (ti, tour) in tours.iter().enumerate() {
        let stops = tour["stops"].as_array().cloned().unwrap_or_default();
        let vid = tour["vehicleId"].as_str().unwrap_or("").to_string();
        let veh = parsed.vehicle_of(&vid);
        for (si, stop) in stops.iter().enumerate() {
            let acts = stop["activities"].as_array().cloned().unwrap_or_default();
            // misreported load (+1 in the first dimension)
            if stop.get("load").is_some() {
                let mut s = solution.clone();
                let l = s["tours"][ti]["stops"][si]["load"][0].as_i64().unwrap_or(0);
                s["tours"][ti]["stops"][si]["load"][0] = json!(l + 1);
                // site kind: a tour made of one single stop (departure, jobs and arrival at the depot) is its own class
                // ... and so is a stop that belongs to no leg of a load interval in the checker's leg based reading: the leg
                // which ENDS at a reload stop is not part of an interval, so a departure / reload stop directly followed by
                // a reload stop (or ending the tour) is on no leg at all
                let reload_stop = |i: usize| stops.get(i).is_some_and(|st| st["activities"][0]["type"].as_str() == Some("reload"));
                let leg_before = si > 0 && !reload_stop(si);
                let leg_after = si + 1 < stops.len() && !reload_stop(si + 1);
                let kind = if stops.len() == 1 {
                    "load-misreported|single-stop-tour"
                } else if !leg_before && !leg_after {
                    "load-misreported|stop-on-no-interval-leg"
                } else {
                    "load-misreported|regular-tour"
                };
                push(kind, format!("tour{ti}/stop{si}"), None, s, &mut out);
            }
            if si > 0 {
                // arrival mismatch (+120 s on the stop's arrival only)
                if let Some(t) = stop["time"]["arrival"].as_str().and_then(|t| shift_time(t, -120)) {
                    let mut s = solution.clone();
                    s["tours"][ti]["stops"][si]["time"]["arrival"] = json!(t);
                    push("arrival-mismatch", format!("tour{ti}/stop{si}"), None, s, &mut out);
                }
                // distance mismatch
                if let Some(d) = stop.get("distance").and_then(|d| d.as_i64()) {
                    let mut s = solution.clone();
                    s["tours"][ti]["stops"][si]["distance"] = json!(d + 5);
                    push("distance-mismatch", format!("tour{ti}/stop{si}"), None, s, &mut out);
                }
            }
            for (ai, a) in acts.iter().enumerate() {
                if !customer(a) {
                    continue;
                }
                let site = format!("tour{ti}/stop{si}/act{ai}");
                // unknown job
                let mut s = solution.clone();
                s["tours"][ti]["stops"][si]["activities"][ai]["jobId"] = json!("ghost_job");
                push("unknown-job", site.clone(), None, s, &mut out);
                // duplicated job (same activity once more in the same stop)
                let mut s = solution.clone();
                s["tours"][ti]["stops"][si]["activities"].as_array_mut().unwrap().insert(ai + 1, a.clone());
                push("duplicated-job", site.clone(), None, s, &mut out);
                // dropped job (activity removed, stop removed when it becomes empty)
                let mut s = solution.clone();
                if acts.len() == 1 {
                    s["tours"][ti]["stops"].as_array_mut().unwrap().remove(si);
                } else {
                    s["tours"][ti]["stops"][si]["activities"].as_array_mut().unwrap().remove(ai);
                }
                push("dropped-job", site.clone(), None, s, &mut out);
                // listed both assigned and unassigned
                let mut s = solution.clone();
                let entry = json!({"jobId": a["jobId"], "reasons": [{"code": "NO_REASON_FOUND", "description": "unknown"}]});
                match s.get_mut("unassigned").and_then(|u| u.as_array_mut()) {
                    Some(u) => u.push(entry),
                    None => s["unassigned"] = json!([entry]),
                }
                push("assigned-and-unassigned", site.clone(), None, s, &mut out);
                // job split over tours: one task of a multi-task job moved into another tour
                let jid = a["jobId"].as_str().unwrap_or("");
                let multi = parsed.job_index.get(jid).is_some_and(|j| parsed.jobs[*j].tasks.len() > 1);
                // two kinds of target: a tour of another vehicle, and the tour of another shift of the SAME vehicle
                let vid = tours[ti]["vehicleId"].as_str().unwrap_or("");
                let other_vehicle = (1..tours.len()).map(|d| (ti + d) % tours.len()).find(|tj| tours[*tj]["vehicleId"].as_str() != Some(vid));
                let other_shift = (1..tours.len()).map(|d| (ti + d) % tours.len()).find(|tj| tours[*tj]["vehicleId"].as_str() == Some(vid));
                for (tj, class) in [(other_vehicle, "job-split-over-tours"), (other_shift, "job-split-over-tours|other-shift-of-same-vehicle")] {
                    let Some(tj) = tj.filter(|_| multi) else { continue };
                    let mut s = solution.clone();
                    // remove here
                    if acts.len() == 1 {
                        s["tours"][ti]["stops"].as_array_mut().unwrap().remove(si);
                    } else {
                        s["tours"][ti]["stops"][si]["activities"].as_array_mut().unwrap().remove(ai);
                    }
                    // append as own stop before the last stop of the other tour
                    let mut new_stop = stop.clone();
                    new_stop["activities"] = json!([a]);
                    let other = s["tours"][tj]["stops"].as_array_mut().unwrap();
                    let pos = other.len().saturating_sub(1).max(1);
                    other.insert(pos, new_stop);
                    push(class, site.clone(), None, s, &mut out);
                }
            }
            // misplaced break: the break activity keeps its place but its interval is moved 3 hours later
            for (ai, a) in acts.iter().enumerate() {
                if a["type"].as_str() == Some("break") {
                    let (st, en) = match a.get("time").filter(|t| !t.is_null()) {
                        Some(t) => (t["start"].as_str().map(|s| s.to_string()), t["end"].as_str().map(|s| s.to_string())),
                        None => (stop["time"]["arrival"].as_str().map(|s| s.to_string()), stop["time"]["departure"].as_str().map(|s| s.to_string())),
                    };
                    if let (Some(st), Some(en)) = (st.and_then(|t| shift_time(&t, 3 * 3600)), en.and_then(|t| shift_time(&t, 3 * 3600))) {
                        let mut s = solution.clone();
                        s["tours"][ti]["stops"][si]["activities"][ai]["time"] = json!({"start": st, "end": en});
                        push("break-misplaced", format!("tour{ti}/stop{si}/act{ai}"), None, s, &mut out);
                    }
                }
            }
        }
        // tour statistic mismatch
        // (the checker skips the distance part for a tour whose stops all report distance 0 - its workaround for output
        // without distances - so such tours are a site kind of their own)
        let all_zero = stops.iter().all(|st| st["distance"].as_i64().unwrap_or(0) == 0);
        for key in ["distance", "duration"] {
            let mut s = solution.clone();
            let v = s["tours"][ti]["statistic"][key].as_i64().unwrap_or(0);
            s["tours"][ti]["statistic"][key] = json!(v + 5);
            let zero_kind = all_zero && key == "distance";
            push(if zero_kind { "tour-statistic-mismatch|all-stop-distances-zero" } else { "tour-statistic-mismatch" }, format!("tour{ti}/{key}"), None, s.clone(), &mut out);
            // the same breach without its side effect on the overall statistic (which is the sum of the tours): only the
            // tour level rule can reject it
            let o = s["statistic"][key].as_i64().unwrap_or(0);
            s["statistic"][key] = json!(o + 5);
            push(if zero_kind { "tour-statistic-mismatch|consistent-with-overall|all-stop-distances-zero" } else { "tour-statistic-mismatch|consistent-with-overall" }, format!("tour{ti}/{key}"), None, s, &mut out);
        }
        // limit breach: the vehicle type's limit lowered just below what this tour uses
        if let Some(veh) = veh {
            let tix = gp.problem["fleet"]["vehicles"].as_array().and_then(|v| v.iter().position(|t| t["typeId"].as_str() == Some(veh.type_id.as_str())));
            if let Some(tix) = tix {
                let dist = tour["statistic"]["distance"].as_i64().unwrap_or(0);
                let dur = tour["statistic"]["duration"].as_i64().unwrap_or(0);
                let n_acts: i64 = stops.iter().flat_map(|s| s["activities"].as_array().cloned().unwrap_or_default()).filter(customer).count() as i64;
                if dist > 2 {
                    let mut p = gp.problem.clone();
                    p["fleet"]["vehicles"][tix]["limits"]["maxDistance"] = json!((dist - 2) as f64);
                    push("limit-breach-distance", format!("tour{ti}"), Some(p), solution.clone(), &mut out);
                }
                if dur > 2 {
                    let mut p = gp.problem.clone();
                    p["fleet"]["vehicles"][tix]["limits"]["maxDuration"] = json!((dur - 2) as f64);
                    push("limit-breach-duration", format!("tour{ti}"), Some(p), solution.clone(), &mut out);
                }
                if n_acts > 1 {
                    let mut p = gp.problem.clone();
                    p["fleet"]["vehicles"][tix]["limits"]["tourSize"] = json!(n_acts - 1);
                    push("limit-breach-tour-size", format!("tour{ti}"), Some(p), solution.clone(), &mut out);
                }
                // capacity breach: capacity lowered below the load the tour reports
                let max_load: i64 = stops.iter().filter_map(|s| s["load"][0].as_i64()).max().unwrap_or(0);
                if max_load > 0 {
                    let mut p = gp.problem.clone();
                    p["fleet"]["vehicles"][tix]["capacity"][0] = json!(max_load - 1);
                    // (a tour made of one single stop has no leg: the checker's leg based load rule never sees it)
                    let kind = if stops.len() == 1 { "load-above-capacity|single-stop-tour" } else { "load-above-capacity|regular-tour" };
                    push(kind, format!("tour{ti}"), Some(p), solution.clone(), &mut out);
                }
            }
            // broken relation: a strict relation demanding the reverse order of two consecutive simple jobs, and an `any`
            // relation pinning a job of this tour to another vehicle
            let ids: Vec<String> = stops.iter().flat_map(|s| s["activities"].as_array().cloned().unwrap_or_default()).filter(customer).filter_map(|a| a["jobId"].as_str().map(|s| s.to_string())).collect();
            let simple = |id: &String| parsed.job_index.get(id).is_some_and(|j| parsed.jobs[*j].tasks.len() == 1 && parsed.jobs[*j].tasks[0].places.len() == 1 && parsed.jobs[*j].tasks[0].places[0].times.len() <= 1);
            let already: Vec<&String> = parsed.relations.iter().flat_map(|r| r.jobs.iter()).collect();
            for w in ids.windows(2) {
                if w[0] != w[1] && simple(&w[0]) && simple(&w[1]) && !already.contains(&&w[0]) && !already.contains(&&w[1]) {
                    let mut p = gp.problem.clone();
                    let rel = json!({"type": "strict", "jobs": [w[1], w[0]], "vehicleId": vid, "shiftIndex": tour.get("shiftIndex").cloned().unwrap_or(json!(0))});
                    match p["plan"].get_mut("relations").and_then(|r| r.as_array_mut()) {
                        Some(r) => r.push(rel),
                        None => p["plan"]["relations"] = json!([rel]),
                    }
                    push("relation-order-broken", format!("tour{ti}/{}-{}", w[0], w[1]), Some(p), solution.clone(), &mut out);
                }
            }
            if let Some(other) = parsed.vehicles.iter().flat_map(|v| v.ids.iter()).find(|id| **id != vid) {
                for id in ids.iter().filter(|id| simple(id) && !already.contains(id)).take(2) {
                    let mut p = gp.problem.clone();
                    let rel = json!({"type": "any", "jobs": [id], "vehicleId": other});
                    match p["plan"].get_mut("relations").and_then(|r| r.as_array_mut()) {
                        Some(r) => r.push(rel),
                        None => p["plan"]["relations"] = json!([rel]),
                    }
                    let has_tour = tours.iter().any(|t| t["vehicleId"].as_str() == Some(other.as_str()) && t.get("shiftIndex").and_then(|s| s.as_u64()).unwrap_or(0) == 0);
                    let kind = if has_tour { "relation-vehicle-broken|pinned-vehicle-has-tour" } else { "relation-vehicle-broken|pinned-vehicle-idle" };
                    push(kind, format!("tour{ti}/{id}"), Some(p), solution.clone(), &mut out);
                }
            }
        }
    }
    // overall statistic mismatch
    for key in ["distance", "duration"] {
        let mut s = solution.clone();
        let v = s["statistic"][key].as_i64().unwrap_or(0);
        s["statistic"][key] = json!(v + 5);
        push("overall-statistic-mismatch", key.to_string(), None, s, &mut out);
    }
    // cap per class (seeded sample)
    let mut by_class: std::collections::BTreeMap<&'static str, Vec<Mutant>> = Default::default();
    for m in out {
        by_class.entry(m.class).or_default().push(m);
    }
    let mut capped = Vec::new();
    for (_, mut v) in by_class {
        rng.shuffle(&mut v);
        v.truncate(cap);
        capped.extend(v);
    }
    capped
}

fn main() {
    let run = Run::from_args(
        "C12",
        "fault_enumeration",
        "base case = (P, S): generated problem (G1 restricted to the features the checker supports: capacity, windows, optional breaks, reloads incl. shared resources, relations, groups, \
         limits, multi-task jobs with unique tags) solved by the real solver, S accepted by the independent replayer O1 with no issue at all; check(P,S) must be Ok. \
         Faults = single-breach mutants of every class the property names (misreported load, load above capacity, unknown / duplicated / dropped job, job split over tours, \
         assigned and unassigned, arrival / distance / tour statistic / overall statistic mismatch, distance / duration / tour-size limit breach, relation order / vehicle broken, \
         break moved out of its interval) at every applicable site (quick: seeded sample per class and solution); a mutant that O1 still calls valid is discarded as equivalent, every \
         other must make check() return Err. Non-trivial/distinct = (mutation class, site, base case).",
        75,
        600,
    );
    run.assume("O1 (src/replay.rs) decides which (P,S) are valid and which mutants are genuine breaches; skills, compatibility, task order and latest departure are documented as outside the checker and not injected");
    run.assume("limit, capacity and relation breaches are injected by changing P (the limit lowered below use / a relation the tour contradicts), all others by changing S");
    if let Some(path) = run.replay.clone() {
        let doc: Value = serde_json::from_str(&std::fs::read_to_string(&path).unwrap_or_default()).unwrap_or(Value::Null);
        let a = &doc["artefact"];
        let gp = PragProblem { problem: a["problem"].clone(), matrices: a["matrices"].as_array().cloned().unwrap_or_default(), features: Default::default(), jobs: 0, vehicles: 0, locations: 0 };
        run.eval();
        if let ReadOutcome::Ok(core) = read_problem(&gp) {
            let v = run_checker(core, &gp.problem, &gp.matrices, &a["solution"]);
            let o1 = PProblem::parse(&gp.problem, &gp.matrices).and_then(|p| replay_parsed(&p, &a["solution"]));
            println!("replay: O1 issues: {:?}", o1.as_ref().map(|r| r.issues.iter().map(|i| i.signature()).collect::<Vec<_>>()));
            match v {
                Verdict::Accepts => {
                    println!("replay: checker ACCEPTS");
                    if o1.is_ok_and(|r| !r.issues.is_empty()) {
                        run.violation(doc["signature"].as_str().unwrap_or("C12|replay"), "checker accepts the recorded breached solution", a.clone());
                    }
                }
                Verdict::Rejects(e) => {
                    println!("replay: checker REJECTS: {e:?}");
                    if doc["signature"].as_str().is_some_and(|s| s.starts_with("C12|rejects-valid")) {
                        run.violation(doc["signature"].as_str().unwrap(), "checker rejects the recorded valid solution", a.clone());
                    }
                }
                Verdict::Panic(p) => println!("replay: checker PANICS {p:?}"),
                Verdict::NotLoadable(e) => println!("replay: not loadable: {e}"),
            }
        }
        run.finish();
    }
    let cases: u64 = run.by_tier(400, 50_000);
    let cap = run.by_tier(3usize, 1000);
    let silent: std::sync::Mutex<Vec<(&'static str, String, Value)>> = std::sync::Mutex::new(Vec::new());
    par_for(4, cases, &|| !run.has_time(), &|i| {
        let case_seed = mix(run.seed, i);
        let mut rng = Rng::new(case_seed);
        let mut cfg = GenCfg::default();
        cfg.min_jobs = 5;
        cfg.max_jobs = run.by_tier(20, 40);
        // features outside the checker's documented scope are left out of the base cases
        cfg.p_skills = 0.0;
        cfg.p_compat = 0.0;
        cfg.p_order = 0.0;
        cfg.p_unreachable = 0.0;
        cfg.p_multi_places = 0.15;
        cfg.p_breaks = 0.45;
        cfg.p_reloads = 0.35;
        cfg.p_limits = 0.5;
        let mut gp = generate(&mut rng, &cfg);
        let (config, _) = gen_config(&mut rng, run.by_tier(20, 60), None);
        let ReadOutcome::Ok(mut core) = read_problem(&gp) else {
            run.inconclusive("generated problem rejected by reader");
            return;
        };
        // a share of base cases carries relations derived from a feasible tour
        if rng.chance(0.3) {
            if let CaseOutcome::Done(res) = solve_and_replay(core.clone(), &gp, &simple_config(10, 1, 2)) {
                if res.report.is_clean() {
                    if let Ok(parsed) = PProblem::parse(&gp.problem, &gp.matrices) {
                        let rels = derive_relations(&mut rng, &parsed, &res.report);
                        if !rels.is_empty() {
                            let mut gp2 = gp.clone();
                            gp2.problem["plan"]["relations"] = Value::Array(rels);
                            gp2.features.insert("relations".into());
                            if let ReadOutcome::Ok(c2) = read_problem(&gp2) {
                                gp = gp2;
                                core = c2;
                            }
                        }
                    }
                }
            }
        }
        let CaseOutcome::Done(res) = solve_and_replay(core.clone(), &gp, &config) else {
            run.inconclusive("solve failed (reported by C01)");
            return;
        };
        if !res.report.issues.is_empty() || !res.report.partial.is_empty() {
            run.inconclusive("base solution not clean for O1 (reported by C01-C03)");
            return;
        }
        if res.report.tours == 0 {
            run.inconclusive("no tours");
            return;
        }
        let Ok(parsed) = PProblem::parse(&gp.problem, &gp.matrices) else { return };
        for f in gp.features.iter() {
            run.observe("base_features", f);
        }
        // (1) the checker accepts the valid solution
        run.eval();
        let art = |problem: &Value, solution: &Value, extra: Value| json!({"case_seed": case_seed, "shape": gp.shape(), "problem": problem, "matrices": gp.matrices, "solution": solution, "extra": extra});
        match run_checker(core.clone(), &gp.problem, &gp.matrices, &res.solution) {
            Verdict::Accepts => run.observe("valid_solutions", "accepted"),
            Verdict::Rejects(errs) => {
                run.observe("valid_solutions", "rejected");
                let first = errs.first().cloned().unwrap_or_default();
                // context: does some tour serve a job inside its departure stop (the writer folds it into stop 0)?
                let dep_stop_job = res.solution["tours"].as_array().is_some_and(|ts| ts.iter().any(|t| t["stops"][0]["activities"].as_array().is_some_and(|a| a.len() > 1)));
                let ctx = if first.starts_with("load mismatch at stop") {
                    // which stop of which tour? "load mismatch at stop N in tour 'vid'"
                    let n: usize = first.split_whitespace().nth(4).and_then(|x| x.parse().ok()).unwrap_or(usize::MAX);
                    let vid = first.split('\'').nth(1).unwrap_or("");
                    let reload_with_jobs = res.solution["tours"].as_array().is_some_and(|ts| {
                        ts.iter().filter(|t| t["vehicleId"].as_str() == Some(vid)).any(|t| {
                            t["stops"].as_array().is_some_and(|st| st.iter().any(|s| s["activities"].as_array().is_some_and(|a| a.len() > 1 && a.iter().any(|x| x["type"].as_str() == Some("reload")))))
                        })
                    });
                    // the tour named by the message, not just any tour, serves a job inside its departure stop
                    let dep_stop_job = dep_stop_job
                        && res.solution["tours"].as_array().is_some_and(|ts| {
                            ts.iter().filter(|t| t["vehicleId"].as_str() == Some(vid)).any(|t| t["stops"][0]["activities"].as_array().is_some_and(|a| a.len() > 1))
                        });
                    if reload_with_jobs {
                        "|tour-has-reload-stop-shared-with-jobs"
                    } else if n == 0 && dep_stop_job {
                        "|job-in-departure-stop"
                    } else {
                        "|other"
                    }
                } else {
                    ""
                };
                run.violation(&format!("C12|rejects-valid|{}{ctx}", norm_msg(&first)), &format!("checker rejects a solution O1 finds valid: {}", clip(&errs.join("; "), 300)), art(&gp.problem, &res.solution, json!({"errors": errs})));
                return;
            }
            Verdict::Panic(p) => {
                run.violation(&format!("C12|panic|valid-solution|{}", p.file()), &format!("checker panicked on a valid solution: {} at {}", p.message, p.location), art(&gp.problem, &res.solution, p.to_json()));
                return;
            }
            Verdict::NotLoadable(e) => {
                run.violation("C12|solver-output-not-loadable", &format!("checker cannot load solver output: {e}"), art(&gp.problem, &res.solution, json!({"error": e})));
                return;
            }
        }
        // (2) every mutant that is a genuine breach must be rejected
        for m in mutants(&mut rng, &gp, &parsed, &res.solution, cap) {
            let problem = m.problem.as_ref().unwrap_or(&gp.problem);
            // re-classify by O1
            let p2 = if m.problem.is_some() {
                match PProblem::parse(problem, &gp.matrices) {
                    Ok(p) => p,
                    Err(_) => continue,
                }
            } else {
                parsed.clone()
            };
            let breached = match replay_parsed(&p2, &m.solution) {
                Ok(rep) => !rep.issues.is_empty(),
                Err(_) => true, // structurally broken is a breach as well
            };
            if !breached {
                run.observe("mutants_equivalent", m.class);
                continue;
            }
            let core2 = if m.problem.is_some() {
                let gp2 = PragProblem { problem: problem.clone(), ..gp.clone() };
                match read_problem(&gp2) {
                    ReadOutcome::Ok(c) => c,
                    _ => {
                        run.observe("mutants_unreadable", m.class);
                        continue;
                    }
                }
            } else {
                core.clone()
            };
            run.eval();
            run.nontrivial(&format!("{}|{}|{case_seed}", m.class, m.site));
            match run_checker(core2, problem, &gp.matrices, &m.solution) {
                Verdict::Rejects(errs) => {
                    run.observe("mutants_rejected", m.class);
                    if std::env::var("C12_MEASURE").is_ok() {
                        let fams: std::collections::BTreeSet<String> = errs.iter().map(|e| norm_msg(e)).collect();
                        for f in fams {
                            run.observe("class_msgs", &format!("{} => {f}", m.class));
                        }
                    }
                    // did the rule the mutation class aims at speak, or was the mutant only rejected for a side effect?
                    // (whatever the class: remember which rule texts this checker build still uses at all)
                    for text in ALL_RULE_TEXTS.iter().filter(|t| errs.iter().any(|e| e.contains(**t))) {
                        run.observe("rule_texts_seen", text);
                    }
                    if let Some(expected) = expected_rule(m.class) {
                        let spoke = errs.iter().any(|e| expected.iter().any(|x| e.contains(x)));
                        run.observe(if spoke { "rule_spoke" } else { "rule_silent" }, m.class);
                        if !spoke {
                            // judged after the run: only a violation when the rule text is still in use elsewhere
                            let mut pending = silent.lock().unwrap();
                            if !pending.iter().any(|(c, ..): &(&'static str, String, Value)| *c == m.class) {
                                pending.push((
                                    m.class,
                                    format!("checker rejects the mutant ({} at {}) only for side effects: no error mentions {expected:?}: {}", m.class, m.site, clip(&errs.join("; "), 300)),
                                    art(problem, &m.solution, json!({"class": m.class, "site": m.site, "errors": errs})),
                                ));
                            }
                        }
                    }
                }
                Verdict::NotLoadable(_) => run.observe("mutants_not_loadable", m.class),
                Verdict::Accepts => {
                    run.observe("mutants_accepted", m.class);
                    run.violation(&format!("C12|accepts-breach|{}", m.class), &format!("checker accepts a solution with an injected breach ({} at {})", m.class, m.site), art(problem, &m.solution, json!({"class": m.class, "site": m.site})));
                }
                Verdict::Panic(p) => {
                    run.observe("mutants_panicked", m.class);
                    run.violation(&format!("C12|panic|{}|{}", m.class, p.file()), &format!("checker panicked on a mutant ({} at {}): {} at {}", m.class, m.site, p.message, p.location), art(problem, &m.solution, p.to_json()));
                }
            }
            if run.wants_sample() {
                run.sample(json!({"case_seed": case_seed, "base": gp.shape(), "mutation_class": m.class, "site": m.site}));
            }
        }
    });
    // a mutant class whose own rule stayed silent while the mutants were rejected for side effects (moved loads, arrival
    // times): a breach of that kind without side effects would be accepted. Wording is not part of the property: when the
    // rule text is not produced by ANY mutant of the run, the checker's messages were reworded and nothing can be inferred.
    for (class, what, artefact) in silent.lock().unwrap().drain(..) {
        let expected = expected_rule(class).unwrap_or(&[]);
        if expected.iter().any(|t| run.observed("rule_texts_seen", t) > 0) {
            run.violation(&format!("C12|rule-silent|{class}"), &what, artefact);
        } else {
            run.inconclusive(&format!("rule text of class {class} never produced in this run (checker messages reworded?): rule attribution not possible"));
        }
    }
    run.floor("valid solutions given to the checker", run.observed("valid_solutions", "accepted") + run.observed("valid_solutions", "rejected"), run.by_tier(30, 300));
    for class in ["load-misreported|regular-tour", "load-above-capacity|regular-tour", "unknown-job", "duplicated-job", "dropped-job", "job-split-over-tours", "job-split-over-tours|other-shift-of-same-vehicle", "assigned-and-unassigned", "arrival-mismatch",
        "distance-mismatch", "tour-statistic-mismatch", "tour-statistic-mismatch|consistent-with-overall", "overall-statistic-mismatch", "limit-breach-distance", "limit-breach-duration", "limit-breach-tour-size",
        "relation-order-broken", "relation-vehicle-broken|pinned-vehicle-has-tour", "break-misplaced"] {
        let judged = run.observed("mutants_rejected", class) + run.observed("mutants_accepted", class) + run.observed("mutants_panicked", class);
        run.floor(&format!("mutants of class '{class}' judged"), judged, 3);
    }
    run.floor("distinct non-trivial mutants", run.distinct_nontrivial(), 100);
    run.finish();
}
