//! C16 - routing-cost providers return exactly the supplied data (reference-model monitor).
//!
//! Parts (every case is reproducible from `(part, case_seed)`):
//! * `core`       generated `MatrixData` sets -> `create_matrix_transport_cost`, every TransportCost method on every
//!                actor/profile/pair/time is compared with a spec written from the property text;
//! * `reject`     inconsistent sets must give `Err` from the constructor (documented classes asserted, others recorded);
//! * `pragmatic`  problem + matrix JSON through `read_pragmatic`, `problem.transport` must equal the JSON entries;
//! * `approx`     `create_approx_matrices` / approximated reading: symmetric, zero diagonal, non negative;
//! * `scientific` `CoordIndex::create_transport`: symmetric, zero diagonal, (rounded) Euclid.

use serde_json::{Value, json};
use std::collections::{BTreeSet, HashSet};
use std::sync::Arc;
use vrp_core::models::common::{Location, Profile};
use vrp_core::models::problem::{
    Actor, Costs, Driver, Fleet, MatrixData, SimpleTransportCost, TransportCost, TravelTime, VehicleBuilder,
    VehicleDetailBuilder, VehicleIdDimension, create_matrix_transport_cost,
};
use vrp_core::models::solution::{Route, Tour};
use vrp_pragmatic::format::problem::{Matrix, PragmaticProblem, create_approx_matrices, deserialize_problem};
use vrp_pragmatic::format::{CoordIndexExtraProperty, Location as ApiLocation, ShiftIndexDimension};
use vverif::{PanicInfo, Rng, Run, mix, par_for};

const PARTS: [&str; 5] = ["core", "reject", "pragmatic", "approx", "scientific"];

fn main() {
    filter_reader_chatter_through_child();
    selftest_rfc3339();
    let run = Run::from_args(
        "C16",
        "exploration",
        "seeded cases in five parts. core: MatrixData sets (1-6 locations, 1-3 profiles, time-agnostic or 2-4 integral \
         timestamps per profile, pairwise distinct asymmetric entries incl. the diagonal, shuffled supply order, vehicles \
         with profile scale != 1) -> create_matrix_transport_cost, every (actor, from, to, t in before/at/mid/quarter/\
         edge/after) compared with the spec; reject: one inconsistency class injected into a valid set; pragmatic: \
         generated problem+matrix JSON (index or coordinate locations, scale, timestamps, errorCodes) read with \
         read_pragmatic and compared entry by entry; approx/scientific: coordinate based providers. A case is \
         NON-TRIVIAL when it has >= 2 locations and at least one of: >= 2 profiles, time-aware data, a scale != 1, \
         errorCodes (pragmatic) or >= 2 distinct coordinates (approx/scientific); DISTINCT = distinct digest of the \
         literal generated data (sizes, timestamps, scales, entries).",
        40,
        420,
    );
    if let Some(path) = run.replay.clone() {
        replay(&run, &path);
        run.finish();
    }
    run.assume("matrix timestamps and query times are non-negative whole seconds (sub-second times between t and t+1 and negative times are outside the claim)");
    run.assume("time-aware duration_approx/distance_approx have no time argument: only 'lies within the supplied values of that (profile, from, to)' is asserted");
    run.assume("pragmatic: an entry flagged by errorCodes is flagged in every matrix of its profile (interpolation between reachable and unreachable is unspecified); negative error codes are recorded, not judged");
    run.assume("non-perfect-square matrix lengths, duplicate timestamps within a profile and profile index gaps are not documented as rejected: recorded only");
    run.assume("SimpleTransportCost documents no profile scale: asserted with scale 1 only, behaviour under scale != 1 is recorded");

    let only = std::env::var("C16_ONLY_PART").ok(); // debugging aid: restricts the run to one part (floors will then miss)
    let cases = run.by_tier(300_000u64, 8_000_000);
    par_for(16, cases, &|| !run.has_time(), &|i| {
        let part = part_of(i);
        if only.as_ref().is_some_and(|o| o != part) {
            return;
        }
        let case_seed = mix(run.seed, i);
        run_case(&run, part, case_seed);
    });

    // coverage floors: every part, every clause, every method must have been exercised
    run.floor("cases", run.evaluations(), 100_000);
    run.floor("distinct_nontrivial", run.distinct_nontrivial(), 500);
    for part in PARTS {
        run.floor(&format!("part:{part}"), run.observed("part", part), 50);
    }
    for k in ["time-agnostic", "time-aware"] {
        run.floor(&format!("core.kind:{k}"), run.observed("core.kind", k), 100);
        run.floor(&format!("pragmatic.kind:{k}"), run.observed("pragmatic.kind", k), 20);
    }
    for c in ["entry", "before-first", "at-timestamp", "between-brackets", "after-last"] {
        run.floor(&format!("core.time-class:{c}"), run.observed("core.time-class", c), 1000);
    }
    for c in ["before-first", "at-timestamp", "between-brackets", "after-last"] {
        run.floor(&format!("pragmatic.time-class:{c}"), run.observed("pragmatic.time-class", c), 100);
    }
    for m in ["duration", "distance", "duration|arrival", "distance|arrival", "duration_approx", "distance_approx", "cost", "size"] {
        run.floor(&format!("core.method:{m}"), run.observed("core.method", m), 100);
    }
    for c in REJECT_ASSERTED {
        run.floor(&format!("reject:{c}"), run.observed("reject.asserted", &format!("{c}:Err")) + run.observed("reject.asserted", &format!("{c}:Ok")), 20);
    }
    for c in PRAG_REJECT {
        run.floor(&format!("pragmatic.reject:{c}"), run.observed("pragmatic.reject", &format!("{c}:Err")) + run.observed("pragmatic.reject", &format!("{c}:Ok")), 5);
    }
    for k in ["index", "coordinate"] {
        run.floor(&format!("pragmatic.locations:{k}"), run.observed("pragmatic.locations", k), 20);
    }
    run.floor("pragmatic.unreachable-entries", run.observed("pragmatic.entries", "unreachable"), 100);
    run.floor("pragmatic.reachable-entries", run.observed("pragmatic.entries", "reachable"), 1000);
    run.floor("pragmatic.shared-profile", run.observed("pragmatic.features", "types-sharing-a-profile"), 10);
    run.floor("pragmatic.multi-profile", run.observed("pragmatic.features", "profiles>=2"), 10);
    run.floor("pragmatic.scale", run.observed("pragmatic.features", "scale!=1"), 10);
    run.floor("pragmatic.unknown-location", run.observed("pragmatic.entries", "unknown-location"), 10);
    run.floor("approx.matrices", run.observed("approx", "create_approx_matrices"), 20);
    run.floor("pragmatic: actors with a required break queried through the reserved-time aware provider", run.observed("pragmatic.provider", "reserved-time wrapper, actor with a required break"), 1000);
    run.floor("approx.read", run.observed("approx", "read_pragmatic(approx)"), 20);
    run.floor("scientific.rounded", run.observed("scientific", "rounded"), 20);
    run.floor("scientific.exact", run.observed("scientific", "exact"), 20);
    run.floor("simple", run.observed("core.kind", "simple"), 50);
    run.finish();
}

fn part_of(i: u64) -> &'static str {
    match i % 20 {
        0..=8 => "core",
        9..=11 => "reject",
        12..=15 => "pragmatic",
        16 | 17 => "approx",
        _ => "scientific",
    }
}

fn run_case(run: &Run, part: &str, case_seed: u64) {
    run.observe("part", part);
    match part {
        "core" => core_case(run, case_seed),
        "reject" => reject_case(run, case_seed),
        "pragmatic" => pragmatic_case(run, case_seed),
        "approx" => approx_case(run, case_seed),
        "scientific" => scientific_case(run, case_seed),
        _ => run.inconclusive("unknown part"),
    }
}

fn replay(run: &Run, path: &std::path::Path) {
    let doc: Value = match std::fs::read_to_string(path).ok().and_then(|t| serde_json::from_str(&t).ok()) {
        Some(v) => v,
        None => {
            println!("INCONCLUSIVE property=C16 cannot read replay artefact {}", path.display());
            std::process::exit(2);
        }
    };
    let art = doc.get("artefact").cloned().unwrap_or(Value::Null);
    let part = art.get("part").and_then(|p| p.as_str()).unwrap_or("");
    let seed = art.get("case_seed").and_then(|s| s.as_str()).and_then(|s| s.parse::<u64>().ok());
    match (PARTS.iter().find(|p| **p == part), seed) {
        (Some(part), Some(seed)) => {
            println!("replaying part={part} case_seed={seed} (recorded signature: {})", doc.get("signature").and_then(|s| s.as_str()).unwrap_or("?"));
            run_case(run, part, seed);
        }
        _ => {
            println!("INCONCLUSIVE property=C16 artefact has no part/case_seed");
            std::process::exit(2);
        }
    }
}

// ---------------------------------------------------------------------------------------------
// small helpers

/// The pragmatic reader prints two timing lines per read through `Environment::default().logger` (println!).
/// They cannot be switched off through public API, so the check re-executes itself once and forwards the child's
/// stdout without those two chatter lines. Verdict lines, evidence and exit code are the child's.
fn filter_reader_chatter_through_child() {
    use std::io::{BufRead, BufReader};
    use std::process::{Command, Stdio};
    if std::env::var_os("C16_CHILD").is_some() {
        return;
    }
    let Ok(exe) = std::env::current_exe() else { return };
    let Ok(mut child) = Command::new(exe).args(std::env::args_os().skip(1)).env("C16_CHILD", "1").stdout(Stdio::piped()).spawn() else {
        return;
    };
    if let Some(out) = child.stdout.take() {
        for line in BufReader::new(out).lines() {
            let Ok(line) = line else { break };
            let chatter = (line.starts_with("fleet index created in ") || line.starts_with("job index created in ")) && line.ends_with("ms");
            if !chatter {
                println!("{line}");
            }
        }
    }
    match child.wait().ok().and_then(|s| s.code()) {
        Some(code) => std::process::exit(code),
        None => {
            println!("INCONCLUSIVE property=C16 worker process terminated abnormally");
            std::process::exit(2);
        }
    }
}

/// At most one literal sample per part (the run keeps four samples in total).
fn take_sample(part: &str) -> bool {
    use std::sync::atomic::{AtomicBool, Ordering};
    static TAKEN: [AtomicBool; 5] = [AtomicBool::new(false), AtomicBool::new(false), AtomicBool::new(false), AtomicBool::new(false), AtomicBool::new(false)];
    PARTS.iter().position(|p| *p == part).is_some_and(|i| !TAKEN[i].swap(true, Ordering::Relaxed))
}

fn close(got: f64, exp: f64) -> bool {
    got == exp || (got - exp).abs() <= 1e-9 * exp.abs().max(1.0)
}

fn fnv(h: &mut u64, v: u64) {
    *h ^= v;
    *h = h.wrapping_mul(0x0000_0100_0000_01B3);
}

/// Days since 1970-01-01 -> (year, month, day) (proleptic Gregorian calendar).
fn civil_from_days(z: i64) -> (i64, i64, i64) {
    let z = z + 719_468;
    let era = z.div_euclid(146_097);
    let doe = z.rem_euclid(146_097);
    let yoe = (doe - doe / 1460 + doe / 36_524 - doe / 146_096) / 365;
    let y = yoe + era * 400;
    let doy = doe - (365 * yoe + yoe / 4 - yoe / 100);
    let mp = (5 * doy + 2) / 153;
    let d = doy - (153 * mp + 2) / 5 + 1;
    let m = if mp < 10 { mp + 3 } else { mp - 9 };
    (if m <= 2 { y + 1 } else { y }, m, d)
}

/// Formats unix seconds as RFC3339 with the given UTC offset in minutes (0 => "Z").
fn rfc3339(secs: i64, offset_min: i64) -> String {
    let local = secs + offset_min * 60;
    let days = local.div_euclid(86_400);
    let sod = local.rem_euclid(86_400);
    let (y, m, d) = civil_from_days(days);
    let tail = if offset_min == 0 {
        "Z".to_string()
    } else {
        format!("{}{:02}:{:02}", if offset_min < 0 { '-' } else { '+' }, offset_min.abs() / 60, offset_min.abs() % 60)
    };
    format!("{y:04}-{m:02}-{d:02}T{:02}:{:02}:{:02}{tail}", sod / 3600, (sod % 3600) / 60, sod % 60)
}

fn selftest_rfc3339() {
    let ok = rfc3339(1_577_836_800, 0) == "2020-01-01T00:00:00Z"
        && rfc3339(1_562_230_800, 0) == "2019-07-04T09:00:00Z"
        && rfc3339(1_562_230_800, 120) == "2019-07-04T11:00:00+02:00"
        && rfc3339(951_827_696, -90) == "2000-02-29T11:04:56-01:30";
    if !ok {
        println!("INCONCLUSIVE property=C16 harness self test failed (rfc3339 formatter)");
        std::process::exit(2);
    }
}

/// Reports a panic of the code under test (or a harness failure when the panic site is in this file).
fn report_panic(run: &Run, sig_prefix: &str, info: &PanicInfo, artefact: Value) {
    if info.location.contains("c16.rs") || info.location.contains("harness/src") {
        println!("INCONCLUSIVE property=C16 harness panic at {}: {}", info.location, info.message);
        run.inconclusive("harness panic");
        run.floor("harness-panic-free", 0, 1);
        return;
    }
    let mut art = artefact;
    art["panic"] = info.to_json();
    run.violation(&format!("{sig_prefix}|panic|{}", info.file()), &format!("panic of the code under test: {} at {}", vverif::clip(&info.message, 160), info.location), art);
}

/// Case-local observation counters (flushed once per case: the shared tables sit behind one mutex).
#[derive(Default)]
struct Obs(std::collections::HashMap<(&'static str, &'static str), u64>);

impl Obs {
    fn hit(&mut self, table: &'static str, key: &'static str) {
        *self.0.entry((table, key)).or_default() += 1;
    }

    fn hit_n(&mut self, table: &'static str, key: &'static str, n: u64) {
        if n > 0 {
            *self.0.entry((table, key)).or_default() += n;
        }
    }

    fn flush(self, run: &Run) {
        for ((table, key), n) in self.0 {
            run.observe_n(table, key, n);
        }
    }
}

/// Reports every signature at most once per case (the artefact is only built for the first hit).
struct Reporter<'a> {
    run: &'a Run,
    seen: HashSet<String>,
}

impl<'a> Reporter<'a> {
    fn new(run: &'a Run) -> Self {
        Self { run, seen: HashSet::new() }
    }

    fn report(&mut self, signature: String, what: impl FnOnce() -> String, artefact: impl FnOnce() -> Value) {
        if self.seen.insert(signature.clone()) {
            self.run.violation(&signature, &what(), artefact());
        }
    }
}

// ---------------------------------------------------------------------------------------------
// part `core`: generator + reference model

#[derive(Clone, Debug)]
struct MSpec {
    profile: usize,
    ts: Option<i64>,
    dur: Vec<f64>,
    dist: Vec<f64>,
}

#[derive(Clone, Debug)]
struct VSpec {
    profile: usize,
    scale: Option<f64>,
    details: usize,
    per_distance: f64,
    per_time: f64,
}

#[derive(Clone, Debug)]
struct CoreCase {
    n: usize,
    profiles: usize,
    aware: bool,
    /// In supply order (shuffled).
    supplied: Vec<MSpec>,
    vehicles: Vec<VSpec>,
    driver_per_distance: f64,
    driver_per_time: f64,
}

const SCALES: [Option<f64>; 9] = [None, Some(1.0), Some(0.5), Some(2.0), Some(1.37), Some(3.25), Some(0.1), Some(10.0), Some(0.999)];

fn gen_timestamps(rng: &mut Rng, k: usize) -> Vec<i64> {
    let mut t = match rng.below(4) {
        0 => 0,
        1 => rng.range_i64(1, 500),
        2 => rng.range_i64(1_500_000_000, 1_700_000_000),
        _ => rng.range_i64(0, 100_000),
    };
    let mut out = vec![t];
    for _ in 1..k {
        let gap = match rng.below(8) {
            0 => 1,
            1 => 2,
            2 => rng.range_i64(3, 9),
            3 => 60,
            4 => 3600,
            5 => 86_400,
            _ => rng.range_i64(5, 5000),
        };
        t += gap;
        out.push(t);
    }
    out
}

/// `count` pairwise distinct values; durations are ≡ 3..3.75 (mod 5), distances ≡ 1..1.75 (mod 5), so no duration
/// equals any distance either.
fn distinct_values(rng: &mut Rng, count: usize, offset: f64, negatives: bool) -> Vec<f64> {
    let mut perm: Vec<usize> = (0..count).collect();
    rng.shuffle(&mut perm);
    perm.into_iter()
        .map(|p| {
            let v = offset + 5.0 * (p as f64 + 1.0) + 0.25 * rng.below(4) as f64;
            if negatives && rng.chance(0.04) { -v } else { v }
        })
        .collect()
}

fn gen_core_case(rng: &mut Rng) -> CoreCase {
    let n = match rng.below(10) {
        0 => 1,
        1 | 2 => 2,
        3 | 4 => 3,
        5 | 6 => 4,
        7 => 5,
        _ => 6,
    };
    let profiles = rng.range_usize(1, 3);
    let aware = rng.chance(0.6);
    let mut layout: Vec<(usize, Option<i64>)> = vec![];
    for p in 0..profiles {
        if aware {
            let k = rng.range_usize(2, 4);
            for ts in gen_timestamps(rng, k) {
                layout.push((p, Some(ts)));
            }
        } else {
            layout.push((p, None));
        }
    }
    let cells = n * n;
    let negatives = rng.chance(0.25);
    let durs = distinct_values(rng, layout.len() * cells, 3.0, negatives);
    let dists = distinct_values(rng, layout.len() * cells, 1.0, negatives);
    let mut supplied: Vec<MSpec> = layout
        .iter()
        .enumerate()
        .map(|(i, (p, ts))| MSpec { profile: *p, ts: *ts, dur: durs[i * cells..(i + 1) * cells].to_vec(), dist: dists[i * cells..(i + 1) * cells].to_vec() })
        .collect();
    rng.shuffle(&mut supplied);

    let mut vehicles = vec![];
    for p in 0..profiles {
        for _ in 0..rng.range_usize(1, 3) {
            vehicles.push(VSpec {
                profile: p,
                scale: *rng.pick(&SCALES),
                details: rng.range_usize(1, 2),
                per_distance: *rng.pick(&[0.0, 1.0, 0.5, 2.25]),
                per_time: *rng.pick(&[0.0, 1.0, 0.1, 3.5]),
            });
        }
    }
    rng.shuffle(&mut vehicles);
    CoreCase {
        n,
        profiles,
        aware,
        supplied,
        vehicles,
        driver_per_distance: *rng.pick(&[0.0, 0.0, 0.75]),
        driver_per_time: *rng.pick(&[0.0, 0.0, 1.25]),
    }
}

impl CoreCase {
    fn to_matrix_data(&self) -> Vec<MatrixData> {
        self.supplied.iter().map(|m| MatrixData::new(m.profile, m.ts.map(|t| t as f64), m.dur.clone(), m.dist.clone())).collect()
    }

    /// Matrices of a profile ordered by timestamp (the model's own ordering).
    fn of_profile(&self, profile: usize) -> Vec<&MSpec> {
        let mut v: Vec<&MSpec> = self.supplied.iter().filter(|m| m.profile == profile).collect();
        v.sort_by_key(|m| m.ts);
        v
    }

    fn digest(&self) -> u64 {
        let mut h = 0xcbf2_9ce4_8422_2325u64;
        fnv(&mut h, self.n as u64);
        for m in &self.supplied {
            fnv(&mut h, m.profile as u64);
            fnv(&mut h, m.ts.map(|t| t as u64 + 1).unwrap_or(0));
            m.dur.iter().chain(m.dist.iter()).for_each(|v| fnv(&mut h, v.to_bits()));
        }
        for v in &self.vehicles {
            fnv(&mut h, v.profile as u64);
            fnv(&mut h, v.scale.map(|s| s.to_bits()).unwrap_or(7));
        }
        h
    }

    fn to_json(&self) -> Value {
        json!({
            "n": self.n, "aware": self.aware,
            "supplied_matrices": self.supplied.iter().map(|m| json!({"profile": m.profile, "timestamp": m.ts, "durations": m.dur, "distances": m.dist})).collect::<Vec<_>>(),
            "vehicles": self.vehicles.iter().map(|v| json!({"profile": v.profile, "scale": v.scale, "details": v.details, "per_distance": v.per_distance, "per_time": v.per_time})).collect::<Vec<_>>(),
            "driver": {"per_distance": self.driver_per_distance, "per_time": self.driver_per_time},
        })
    }
}

const CLASSES: [&str; 5] = ["entry", "before-first", "at-timestamp", "between-brackets", "after-last"];

fn class_idx(class: &str) -> usize {
    CLASSES.iter().position(|c| *c == class).unwrap_or(0)
}

/// What the property says a provider returns (duration before the profile scale is applied).
struct Expected {
    dur: f64,
    dist: f64,
    class: &'static str,
}

/// The spec: `ms` are the matrices of one profile ordered by timestamp, `cell` = from * n + to.
fn spec_at(ms: &[(Option<i64>, &[f64], &[f64])], cell: usize, t: i64) -> Expected {
    if ms.len() == 1 && ms[0].0.is_none() {
        return Expected { dur: ms[0].1[cell], dist: ms[0].2[cell], class: "entry" };
    }
    let first = ms.first().unwrap();
    let last = ms.last().unwrap();
    if t < first.0.unwrap() {
        return Expected { dur: first.1[cell], dist: first.2[cell], class: "before-first" };
    }
    if t > last.0.unwrap() {
        return Expected { dur: last.1[cell], dist: last.2[cell], class: "after-last" };
    }
    for m in ms {
        if m.0.unwrap() == t {
            return Expected { dur: m.1[cell], dist: m.2[cell], class: "at-timestamp" };
        }
    }
    for w in ms.windows(2) {
        let (tl, tr) = (w[0].0.unwrap(), w[1].0.unwrap());
        if tl < t && t < tr {
            let (l, r) = (w[0].1[cell], w[1].1[cell]);
            let ratio = (t - tl) as f64 / (tr - tl) as f64;
            return Expected { dur: l + (r - l) * ratio, dist: w[0].2[cell], class: "between-brackets" };
        }
    }
    unreachable!("spec_at: t not classified")
}

fn query_times(ts: &[i64], rng: &mut Rng) -> Vec<i64> {
    let mut out = vec![];
    let first = ts[0];
    let last = *ts.last().unwrap();
    if first > 0 {
        out.extend([first - 1, first / 2, 0]);
    }
    for w in ts.windows(2) {
        let (a, b) = (w[0], w[1]);
        let g = b - a;
        out.extend([a, b]);
        for q in [g / 2, g / 4, (3 * g) / 4, 1, g - 1] {
            if q > 0 && q < g {
                out.push(a + q);
            }
        }
        if g > 2 {
            out.push(a + 1 + rng.below((g - 1) as u64) as i64);
        }
    }
    out.extend([last + 1, last + 2 + rng.below(100_000) as i64, last * 2 + 7]);
    out
}

fn build_fleet(case_vehicles: &[VSpec], n: usize, driver_per_distance: f64, driver_per_time: f64, rng: &mut Rng) -> Fleet {
    let vehicles = case_vehicles
        .iter()
        .enumerate()
        .map(|(i, v)| {
            let mut b = VehicleBuilder::default().id(&format!("v{i}")).set_profile_idx(v.profile).set_distance_cost(v.per_distance).set_duration_cost(v.per_time);
            for _ in 0..v.details {
                let mut d = VehicleDetailBuilder::default().set_start_location(rng.usize_below(n)).set_start_time(0.);
                if rng.chance(0.5) {
                    d = d.set_end_location(rng.usize_below(n)).set_end_time(1e9);
                }
                b = b.add_detail(d.build().expect("vehicle detail"));
            }
            let mut vehicle = b.build().expect("vehicle");
            vehicle.profile = Profile::new(v.profile, v.scale);
            Arc::new(vehicle)
        })
        .collect::<Vec<_>>();
    let driver = Arc::new(Driver {
        costs: Costs { fixed: 0., per_distance: driver_per_distance, per_driving_time: driver_per_time, per_waiting_time: 0., per_service_time: 0. },
        dimens: Default::default(),
        details: vec![],
    });
    Fleet::new(vec![driver], vehicles, |_| |_| 0)
}

fn route_of(actor: &Arc<Actor>) -> Route {
    Route { actor: actor.clone(), tour: Tour::new(actor) }
}

/// Names the slip when it is one of the well known ones (exact matches only); `alt` is the value a scale slip gives.
fn diag(got: f64, scale: f64, alt: f64, alt_name: &'static str, transposed: f64) -> &'static str {
    if got == transposed {
        "transposed"
    } else if scale != 1.0 && got == alt {
        alt_name
    } else {
        "other"
    }
}

fn core_case(run: &Run, case_seed: u64) {
    let mut rng = Rng::new(case_seed);
    if rng.chance(0.08) {
        return simple_case(run, case_seed, &mut rng);
    }
    let case = gen_core_case(&mut rng);
    let kind = if case.aware { "time-aware" } else { "time-agnostic" };
    run.observe("core.kind", kind);
    run.observe("core.locations", &case.n.to_string());
    run.observe("core.profiles", &case.profiles.to_string());
    let fleet = build_fleet(&case.vehicles, case.n, case.driver_per_distance, case.driver_per_time, &mut rng);
    let art = |extra: Value| json!({"part": "core", "case_seed": case_seed.to_string(), "case": case.to_json(), "query": extra});

    let transport = match run.guard(|| create_matrix_transport_cost(case.to_matrix_data())) {
        Ok(Ok(t)) => t,
        Ok(Err(err)) => {
            run.eval();
            run.violation(&format!("C16|{kind}|construct|valid-set-rejected"), &format!("a consistent matrix set was rejected: {err}"), art(Value::Null));
            return;
        }
        Err(info) => {
            run.eval();
            report_panic(run, &format!("C16|{kind}|construct"), &info, art(Value::Null));
            return;
        }
    };

    // query times: union over the profiles' own points, so that "at" of one profile is "between" of another
    let mut times: Vec<i64> = vec![];
    if case.aware {
        for p in 0..case.profiles {
            let ts: Vec<i64> = case.of_profile(p).iter().map(|m| m.ts.unwrap()).collect();
            run.observe("core.matrices-per-profile", &ts.len().to_string());
            times.extend(query_times(&ts, &mut rng));
        }
    } else {
        times.extend([0, 17, 1_600_000_000]);
    }
    times.sort();
    times.dedup();

    let outcome = run.guard(|| {
        let mut rep = Reporter::new(run);
        let mut obs = Obs::default();
        let mut evals = 0u64;
        let n = case.n;
        let size = transport.size();
        evals += 1;
        obs.hit("core.method", "size");
        let (mut class_n, mut timed_n, mut approx_n) = ([0u64; 5], 0u64, 0u64);
        if size != n {
            rep.report(format!("C16|{kind}|size"), || format!("size() = {size}, supplied matrices are {n}x{n}"), || art(json!({"got": size, "expected": n})));
        }
        let used_scale_ne_1 = case.vehicles.iter().any(|v| v.scale.unwrap_or(1.0) != 1.0);
        if n >= 2 && (case.profiles >= 2 || case.aware || used_scale_ne_1) {
            run.nontrivial(&format!("core|{:016x}", case.digest()));
        }
        for actor in fleet.actors.iter() {
            let profile = actor.vehicle.profile.clone();
            let scale = profile.scale;
            let ms_owned = case.of_profile(profile.index);
            let ms: Vec<(Option<i64>, &[f64], &[f64])> = ms_owned.iter().map(|m| (m.ts, m.dur.as_slice(), m.dist.as_slice())).collect();
            let route = route_of(actor);
            let per_distance = actor.driver.costs.per_distance + actor.vehicle.costs.per_distance;
            let per_time = actor.driver.costs.per_driving_time + actor.vehicle.costs.per_driving_time;
            // a profile value which belongs to no vehicle: the answer must depend on (index, scale) only
            let free_profile = Profile::new(profile.index, Some(1.75));
            for from in 0..n {
                for to in 0..n {
                    let cell = from * n + to;
                    let tcell = to * n + from;
                    let q = |t: Option<i64>, got: f64, exp: f64| json!({"vehicle_profile": profile.index, "scale": scale, "from": from, "to": to, "t": t, "got": got, "expected": exp});

                    // time independent methods
                    for (pr, tag) in [(&profile, "vehicle"), (&free_profile, "free")] {
                        let da = transport.duration_approx(pr, from as Location, to as Location);
                        let sa = transport.distance_approx(pr, from as Location, to as Location);
                        evals += 2;
                        if tag == "vehicle" {
                            approx_n += 1;
                        }
                        if !case.aware {
                            let (ed, es) = (ms[0].1[cell] * pr.scale, ms[0].2[cell]);
                            if da != ed {
                                let d = diag(da, pr.scale, ms[0].1[cell], "scale-missing", ms[0].1[tcell] * pr.scale);
                                rep.report(format!("C16|{kind}|duration_approx|entry|diag={d}"), || format!("duration_approx({from},{to}) = {da}, supplied entry x scale = {ed}"), || art(q(None, da, ed)));
                            }
                            if sa != es {
                                let d = diag(sa, pr.scale, es * pr.scale, "scale-unexpected", ms[0].2[tcell]);
                                rep.report(format!("C16|{kind}|distance_approx|entry|diag={d}"), || format!("distance_approx({from},{to}) = {sa}, supplied entry = {es}"), || art(q(None, sa, es)));
                            }
                        } else {
                            let lo = ms.iter().map(|m| m.1[cell] * pr.scale).fold(f64::INFINITY, f64::min);
                            let hi = ms.iter().map(|m| m.1[cell] * pr.scale).fold(f64::NEG_INFINITY, f64::max);
                            if !(da >= lo - 1e-9 * lo.abs().max(1.) && da <= hi + 1e-9 * hi.abs().max(1.)) {
                                rep.report(format!("C16|{kind}|duration_approx|outside-supplied-values"), || format!("duration_approx({from},{to}) = {da} is outside [{lo}, {hi}] spanned by the supplied entries x scale"), || art(q(None, da, lo)));
                            }
                            if !ms.iter().any(|m| m.2[cell] == sa) {
                                rep.report(format!("C16|{kind}|distance_approx|not-a-supplied-value"), || format!("distance_approx({from},{to}) = {sa} is none of the supplied entries of that pair"), || art(q(None, sa, ms[0].2[cell])));
                            }
                        }
                    }

                    // time dependent methods
                    for &t in times.iter() {
                        let e = spec_at(&ms, cell, t);
                        let te = spec_at(&ms, tcell, t);
                        let exp_dur = e.dur * scale;
                        let exact = e.class != "between-brackets";
                        class_n[class_idx(e.class)] += 1;
                        timed_n += 1;
                        for (tt, suffix) in [(TravelTime::Departure(t as f64), ""), (TravelTime::Arrival(t as f64), "|arrival")] {
                            let d = transport.duration(&route, from, to, tt);
                            let s = transport.distance(&route, from, to, tt);
                            evals += 2;
                            let dur_ok = if exact { d == exp_dur } else { close(d, exp_dur) };
                            if !dur_ok {
                                let dg = if exact { diag(d, scale, e.dur, "scale-missing", te.dur * scale) } else { "-" };
                                rep.report(
                                    format!("C16|{kind}|duration{suffix}|{}|diag={dg}", e.class),
                                    || format!("duration({from},{to},t={t}) = {d} for scale {scale}, spec ({}) gives {exp_dur}", e.class),
                                    || art(q(Some(t), d, exp_dur)),
                                );
                            }
                            if s != e.dist {
                                let dg = diag(s, scale, e.dist * scale, "scale-unexpected", te.dist);
                                rep.report(
                                    format!("C16|{kind}|distance{suffix}|{}|diag={dg}", e.class),
                                    || format!("distance({from},{to},t={t}) = {s}, spec ({}) gives {}", e.class, e.dist),
                                    || art(q(Some(t), s, e.dist)),
                                );
                            }
                        }
                        let c = transport.cost(&route, from, to, TravelTime::Departure(t as f64));
                        let exp_cost = e.dist * per_distance + exp_dur * per_time;
                        evals += 1;

                        if !close(c, exp_cost) {
                            rep.report(
                                format!("C16|{kind}|cost|{}", e.class),
                                || format!("cost({from},{to},t={t}) = {c}, expected distance*{per_distance} + duration*{per_time} = {exp_cost}"),
                                || art(q(Some(t), c, exp_cost)),
                            );
                        }
                    }
                }
            }
        }
        for (i, class) in CLASSES.iter().enumerate() {
            obs.hit_n("core.time-class", class, class_n[i]);
        }
        for m in ["duration", "distance", "duration|arrival", "distance|arrival", "cost"] {
            obs.hit_n("core.method", m, timed_n);
        }
        obs.hit_n("core.method", "duration_approx", approx_n);
        obs.hit_n("core.method", "distance_approx", approx_n);
        obs.flush(run);
        evals
    });
    match outcome {
        Ok(evals) => run.eval_n(evals),
        Err(info) => {
            run.eval();
            report_panic(run, &format!("C16|{kind}|query"), &info, art(Value::Null));
        }
    }
    if case.n == 2 && case.aware && case.profiles == 1 && case.supplied.len() == 2 && case.vehicles.len() <= 2 && take_sample("core") {
        run.sample(json!({"part": "core", "case_seed": case_seed.to_string(), "case": case.to_json(), "query_times": times}));
    }
}

/// `SimpleTransportCost`: single matrix, no documented profile scale.
fn simple_case(run: &Run, case_seed: u64, rng: &mut Rng) {
    run.observe("core.kind", "simple");
    let n = rng.range_usize(1, 6);
    let dur = distinct_values(rng, n * n, 3.0, false);
    let dist = distinct_values(rng, n * n, 1.0, false);
    let art = |extra: Value| json!({"part": "core", "case_seed": case_seed.to_string(), "simple": {"n": n, "durations": dur, "distances": dist}, "query": extra});
    let transport = match run.guard(|| SimpleTransportCost::new(dur.clone(), dist.clone())) {
        Ok(Ok(t)) => t,
        Ok(Err(err)) => {
            run.eval();
            run.violation("C16|simple|construct|valid-set-rejected", &format!("a consistent single matrix was rejected: {err}"), art(Value::Null));
            return;
        }
        Err(info) => {
            run.eval();
            return report_panic(run, "C16|simple|construct", &info, art(Value::Null));
        }
    };
    let vehicles = vec![
        VSpec { profile: 0, scale: None, details: 1, per_distance: 1., per_time: 0.5 },
        VSpec { profile: 0, scale: Some(1.0), details: 2, per_distance: 0.5, per_time: 1. },
        VSpec { profile: 0, scale: Some(2.5), details: 1, per_distance: 1., per_time: 1. },
    ];
    let fleet = build_fleet(&vehicles, n, 0., 0., rng);
    let outcome = run.guard(|| {
        let mut rep = Reporter::new(run);
        let mut evals = 1u64;
        if transport.size() != n {
            rep.report("C16|simple|size".into(), || format!("size() = {}, matrix is {n}x{n}", transport.size()), || art(Value::Null));
        }
        if n >= 2 {
            let mut h = 0xcbf2_9ce4_8422_2325u64;
            dur.iter().chain(dist.iter()).for_each(|v| fnv(&mut h, v.to_bits()));
            run.nontrivial(&format!("simple|{h:016x}"));
        }
        for actor in fleet.actors.iter() {
            let route = route_of(actor);
            let scale = actor.vehicle.profile.scale;
            for from in 0..n {
                for to in 0..n {
                    let cell = from * n + to;
                    for t in [0., 1000.] {
                        let d = transport.duration(&route, from, to, TravelTime::Departure(t));
                        let s = transport.distance(&route, from, to, TravelTime::Arrival(t));
                        let da = transport.duration_approx(&actor.vehicle.profile, from, to);
                        let sa = transport.distance_approx(&actor.vehicle.profile, from, to);
                        evals += 4;
                        for (name, got, exp) in [("distance", s, dist[cell]), ("distance_approx", sa, dist[cell])] {
                            if got != exp {
                                rep.report(format!("C16|simple|{name}|entry"), || format!("{name}({from},{to}) = {got}, supplied entry = {exp}"), || art(json!({"from": from, "to": to, "got": got, "expected": exp})));
                            }
                        }
                        for (name, got) in [("duration", d), ("duration_approx", da)] {
                            if scale == 1.0 {
                                if got != dur[cell] {
                                    rep.report(format!("C16|simple|{name}|entry"), || format!("{name}({from},{to}) = {got}, supplied entry = {}", dur[cell]), || art(json!({"from": from, "to": to, "got": got, "expected": dur[cell]})));
                                }
                            } else if from == 0 && to == 0 && t == 0. {
                                // documented nowhere: recorded only
                                let key = if got == dur[cell] * scale { "scale-applied" } else if got == dur[cell] { "scale-ignored" } else { "other" };
                                run.observe("unspecified", &format!("simple|{name}|profile-scale!=1:{key}"));
                            }
                        }
                    }
                }
            }
        }
        evals
    });
    match outcome {
        Ok(evals) => run.eval_n(evals),
        Err(info) => {
            run.eval();
            report_panic(run, "C16|simple|query", &info, art(Value::Null));
        }
    }
}

// ---------------------------------------------------------------------------------------------
// part `reject`: inconsistent sets

/// Classes the code/docs name as rejected ("inconsistent matrix sets are rejected when the provider is built").
const REJECT_ASSERTED: [&str; 8] = [
    "empty-input",
    "durations-distances-length-mismatch",
    "different-sizes-across-matrices",
    "mixed-timestamp-presence-within-profile",
    "mixed-timestamp-presence-across-profiles",
    "single-matrix-for-time-aware-profile",
    "duplicate-time-agnostic-profile",
    "simple-length-mismatch",
];

/// Classes neither the docs nor the constructor's messages decide: recorded only.
const REJECT_RECORDED: [&str; 4] = ["non-square-length", "duplicate-timestamp-within-profile", "profile-index-gap-time-agnostic", "profile-index-gap-time-aware"];

fn gen_ts_any(rng: &mut Rng) -> Vec<i64> {
    let k = rng.range_usize(2, 4);
    gen_timestamps(rng, k)
}

fn set_digest(set: &[MSpec]) -> u64 {
    let mut h = 0xcbf2_9ce4_8422_2325u64;
    for m in set {
        fnv(&mut h, m.profile as u64);
        fnv(&mut h, m.ts.map(|t| t as u64 + 1).unwrap_or(0));
        fnv(&mut h, m.dur.len() as u64);
        m.dur.iter().chain(m.dist.iter()).for_each(|v| fnv(&mut h, v.to_bits()));
    }
    h
}

fn square_values(rng: &mut Rng, size: usize, offset: f64) -> Vec<f64> {
    distinct_values(rng, size * size, offset, false)
}

fn reject_case(run: &Run, case_seed: u64) {
    let mut rng = Rng::new(case_seed);
    let asserted = rng.chance(0.8);
    let class: &str = if asserted { *rng.pick(&REJECT_ASSERTED) } else { *rng.pick(&REJECT_RECORDED) };
    let n = rng.range_usize(1, 5);
    let mk = |rng: &mut Rng, profile: usize, ts: Option<i64>, size: usize| MSpec { profile, ts, dur: square_values(rng, size, 3.0), dist: square_values(rng, size, 1.0) };
    // a valid base set of the kind the class needs
    let mut set: Vec<MSpec> = vec![];
    let profiles = rng.range_usize(1, 3);
    let mut note = String::new();
    match class {
        "empty-input" => {}
        "durations-distances-length-mismatch" => {
            let aware = rng.chance(0.5);
            for p in 0..profiles {
                if aware {
                    for ts in gen_ts_any(&mut rng) {
                        set.push(mk(&mut rng, p, Some(ts), n));
                    }
                } else {
                    set.push(mk(&mut rng, p, None, n));
                }
            }
            let victim = rng.usize_below(set.len());
            match rng.below(4) {
                0 => {
                    set[victim].dur.pop();
                    note = "durations one shorter".into();
                }
                1 => {
                    set[victim].dist.push(1e6);
                    note = "distances one longer".into();
                }
                2 => {
                    set[victim].dist = square_values(&mut rng, n + 1, 1.0);
                    note = "distances are (n+1)^2".into();
                }
                _ => {
                    set[victim].dur = square_values(&mut rng, n + 1, 3.0);
                    note = "durations are (n+1)^2".into();
                }
            }
        }
        "different-sizes-across-matrices" => {
            let aware = rng.chance(0.5);
            let profiles = profiles.max(if aware { 1 } else { 2 });
            for p in 0..profiles {
                if aware {
                    for ts in gen_ts_any(&mut rng) {
                        set.push(mk(&mut rng, p, Some(ts), n));
                    }
                } else {
                    set.push(mk(&mut rng, p, None, n));
                }
            }
            let victim = rng.usize_below(set.len());
            let other = if n > 1 && rng.chance(0.5) { n - 1 } else { n + 1 };
            set[victim] = mk(&mut rng, set[victim].profile, set[victim].ts, other);
            note = format!("one matrix is {other}x{other}, the others {n}x{n}");
        }
        "mixed-timestamp-presence-within-profile" => {
            for p in 0..profiles {
                for ts in gen_ts_any(&mut rng) {
                    set.push(mk(&mut rng, p, Some(ts), n));
                }
            }
            let victim = rng.usize_below(set.len());
            set[victim].ts = None;
        }
        "mixed-timestamp-presence-across-profiles" => {
            let profiles = profiles.max(2);
            let agnostic = rng.usize_below(profiles);
            for p in 0..profiles {
                if p == agnostic {
                    set.push(mk(&mut rng, p, None, n));
                } else {
                    for ts in gen_ts_any(&mut rng) {
                        set.push(mk(&mut rng, p, Some(ts), n));
                    }
                }
            }
        }
        "single-matrix-for-time-aware-profile" => {
            let single = rng.usize_below(profiles);
            for p in 0..profiles {
                let k = if p == single { 1 } else { rng.range_usize(2, 4) };
                for ts in gen_timestamps(&mut rng, k) {
                    set.push(mk(&mut rng, p, Some(ts), n));
                }
            }
        }
        "duplicate-time-agnostic-profile" => {
            let dup = rng.usize_below(profiles);
            for p in 0..profiles {
                set.push(mk(&mut rng, p, None, n));
                if p == dup {
                    set.push(mk(&mut rng, p, None, n));
                }
            }
        }
        "simple-length-mismatch" => {}
        "non-square-length" => {
            // every matrix has the same non-square length, durations and distances agree
            let len = *rng.pick(&[2usize, 3, 5, 6, 7, 8, 10, 11, 12, 13, 14, 15, 17, 20, 23, 24, 26, 30, 35, 37]);
            for p in 0..profiles {
                let dur = distinct_values(&mut rng, len, 3.0, false);
                let dist = distinct_values(&mut rng, len, 1.0, false);
                set.push(MSpec { profile: p, ts: None, dur, dist });
            }
            note = format!("length {len}");
        }
        "duplicate-timestamp-within-profile" => {
            for p in 0..profiles {
                for ts in gen_ts_any(&mut rng) {
                    set.push(mk(&mut rng, p, Some(ts), n));
                }
            }
            let victim = rng.usize_below(set.len());
            let copy_ts = set[victim].ts;
            let p = set[victim].profile;
            set.push(mk(&mut rng, p, copy_ts, n));
        }
        "profile-index-gap-time-agnostic" => {
            for p in 0..profiles {
                set.push(mk(&mut rng, p, None, n));
            }
            let victim = rng.usize_below(set.len());
            set[victim].profile = profiles + rng.usize_below(2);
        }
        "profile-index-gap-time-aware" => {
            for p in 0..profiles {
                let idx = if p == profiles - 1 { p + 1 + rng.usize_below(2) } else { p };
                for ts in gen_ts_any(&mut rng) {
                    set.push(mk(&mut rng, idx, Some(ts), n));
                }
            }
        }
        _ => unreachable!(),
    }
    rng.shuffle(&mut set);
    let set_json = || set.iter().map(|m| json!({"profile": m.profile, "timestamp": m.ts, "durations": m.dur, "distances": m.dist})).collect::<Vec<_>>();
    let art = || json!({"part": "reject", "case_seed": case_seed.to_string(), "class": class, "note": note, "supplied_matrices": set_json()});

    let result: Result<Result<(), String>, PanicInfo> = if class == "simple-length-mismatch" {
        let other = if n > 1 && rng.chance(0.5) { n - 1 } else { n + 1 };
        let (a, b) = (square_values(&mut rng, n, 3.0), square_values(&mut rng, other, 1.0));
        let (dur, dist) = if rng.chance(0.5) { (a, b) } else { (b, a) };
        run.guard(|| SimpleTransportCost::new(dur, dist).map(|_| ()).map_err(|e| e.to_string()))
    } else {
        run.guard(|| {
            let data = set.iter().map(|m| MatrixData::new(m.profile, m.ts.map(|t| t as f64), m.dur.clone(), m.dist.clone())).collect();
            create_matrix_transport_cost(data).map(|_| ()).map_err(|e| e.to_string())
        })
    };
    run.eval();
    run.nontrivial(&format!("reject|{class}|{:016x}", set_digest(&set)));
    match result {
        Err(info) => report_panic(run, &format!("C16|reject|{class}"), &info, art()),
        Ok(res) => {
            let verdict = if res.is_ok() { "Ok" } else { "Err" };
            if asserted {
                run.observe("reject.asserted", &format!("{class}:{verdict}"));
                if res.is_ok() {
                    run.violation(&format!("C16|reject|{class}-accepted"), &format!("an inconsistent matrix set ({class}{}{note}) was accepted by the constructor", if note.is_empty() { "" } else { ": " }), art());
                }
            } else {
                run.observe("unspecified", &format!("reject|{class}:{verdict}"));
            }
        }
    }
}

// ---------------------------------------------------------------------------------------------
// part `pragmatic`: problem + matrices as JSON through read_pragmatic

const PRAG_REJECT: [&str; 6] = [
    "matrix-missing-for-a-profile",
    "timestamp-dropped-on-one-matrix",
    "single-timestamped-matrix-for-a-profile",
    "profile-name-on-some-matrices-only",
    "travelTimes-distances-length-mismatch",
    "duplicate-time-agnostic-profile",
];

#[derive(Clone, Debug)]
struct PMatrix {
    profile: String,
    named: bool,
    ts: Option<i64>,
    ts_offset_min: i64,
    tt: Vec<i64>,
    dist: Vec<i64>,
    err: Option<Vec<i64>>,
}

impl PMatrix {
    fn to_json(&self) -> Value {
        let mut m = serde_json::Map::new();
        if self.named {
            m.insert("profile".into(), json!(self.profile));
        }
        if let Some(ts) = self.ts {
            m.insert("timestamp".into(), json!(rfc3339(ts, self.ts_offset_min)));
        }
        m.insert("travelTimes".into(), json!(self.tt));
        m.insert("distances".into(), json!(self.dist));
        if let Some(err) = &self.err {
            m.insert("errorCodes".into(), json!(err));
        }
        Value::Object(m)
    }
}

#[derive(Clone, Debug)]
struct PType {
    type_id: String,
    ids: Vec<String>,
    profile: String,
    scale: Option<f64>,
    cost_distance: f64,
    cost_time: f64,
    /// (start location id, end location id) per shift; `usize::MAX` start = location of type `unknown`.
    shifts: Vec<(usize, Option<usize>)>,
    /// required break (earliest, latest, duration) per shift: the reader then wraps the provider of the whole problem
    /// into the reserved-time aware one, which must still return the supplied data outside the reserved time
    required_breaks: Vec<Option<(i64, i64, i64)>>,
}

struct PragCase {
    coords: bool,
    n: usize,
    aware: bool,
    /// lat/lng of the location ids (coordinate problems).
    points: Vec<(f64, f64)>,
    /// Expected matrix index of every location id (documented: index itself, or order of first appearance).
    index_of: Vec<usize>,
    profiles: Vec<String>,
    types: Vec<PType>,
    matrices: Vec<PMatrix>,
    /// Cells (expected-index based) per profile which carry a negative error code: recorded, not judged.
    negative_code_cells: Vec<(String, usize)>,
    has_unknown: bool,
    problem: Value,
}

const UNKNOWN: usize = usize::MAX;

fn distinct_ints(rng: &mut Rng, count: usize, offset: i64) -> Vec<i64> {
    let mut perm: Vec<i64> = (0..count as i64).collect();
    rng.shuffle(&mut perm);
    perm.into_iter().map(|p| offset + 3 * (p + 3)).collect()
}

fn gen_points(rng: &mut Rng, n: usize) -> Vec<(f64, f64)> {
    let mut pts: Vec<(f64, f64)> = vec![];
    let style = rng.below(4);
    let mut guard = 0;
    while pts.len() < n && guard < 1000 {
        guard += 1;
        let p = match style {
            0 => (rng.range_f64(-85., 85.), rng.range_f64(-179., 179.)),
            1 => (52.5 + rng.range_f64(-0.1, 0.1), 13.4 + rng.range_f64(-0.2, 0.2)),
            2 => (rng.range_i64(-5, 5) as f64 * 0.01, rng.range_i64(-5, 5) as f64 * 0.01),
            _ => (
                *rng.pick(&[0., 89.9, -89.9, 45., -33.3, 1e-5]),
                *rng.pick(&[0., 179.999, -179.999, 90., -90., 12.5, 1e-5]),
            ),
        };
        // six decimals: short decimal text which every JSON reader maps to the same double
        let p = ((p.0 * 1e6).round() / 1e6, (p.1 * 1e6).round() / 1e6);
        if !pts.iter().any(|q| (q.0 - p.0).abs() < 1e-9 && (q.1 - p.1).abs() < 1e-9) {
            pts.push(p);
        }
    }
    // fall back to a guaranteed distinct grid if the style could not give enough points
    let mut k = 0;
    while pts.len() < n {
        k += 1;
        pts.push((10. + k as f64, 20. + k as f64));
    }
    pts
}

const T0: i64 = 1_577_836_800; // 2020-01-01T00:00:00Z

fn gen_pragmatic_case(rng: &mut Rng, with_matrices: bool) -> PragCase {
    let coords = if with_matrices { rng.chance(0.5) } else { true };
    let aware = with_matrices && rng.chance(0.5);
    let profile_pool = ["car", "truck", "bike"];
    let mut profiles: Vec<String> = profile_pool.iter().take(rng.range_usize(1, 3)).map(|s| s.to_string()).collect();
    rng.shuffle(&mut profiles);

    // vehicle types: every profile is used by at least one type, sometimes several types share one
    let type_count = (profiles.len() + rng.usize_below(3)).min(4);
    let has_unknown = with_matrices && rng.chance(0.12);
    let mut types: Vec<PType> = (0..type_count)
        .map(|i| {
            let profile = if i < profiles.len() { profiles[i].clone() } else { rng.pick(&profiles).clone() };
            let id_count = rng.range_usize(1, 2);
            PType {
                type_id: format!("type{i}"),
                ids: (0..id_count).map(|k| format!("type{i}_v{k}")).collect(),
                profile,
                scale: *rng.pick(&[None, None, Some(1.0), Some(0.5), Some(2.0), Some(1.37), Some(3.25)]),
                cost_distance: *rng.pick(&[1.0, 0.5, 0.0002]),
                cost_time: *rng.pick(&[1.0, 0.0, 0.004806]),
                shifts: vec![(0, None); rng.range_usize(1, 2)],
                required_breaks: vec![],
            }
        })
        .collect();
    rng.shuffle(&mut types);

    // jobs: one task kind per job (the order of kinds inside one job is not documented)
    let job_count = rng.range_usize(1, 4);
    let mut job_shapes: Vec<(&str, Vec<usize>)> = vec![]; // kind, places per task
    for _ in 0..job_count {
        let kind = *rng.pick(&["deliveries", "pickups", "services"]);
        let tasks = rng.range_usize(1, 2);
        job_shapes.push((kind, (0..tasks).map(|_| rng.range_usize(1, 2)).collect()));
    }

    // slots in document order: job places, then per vehicle type / shift: start, optional end
    let job_slots: usize = job_shapes.iter().map(|(_, t)| t.iter().sum::<usize>()).sum();
    let mut shift_has_end: Vec<Vec<bool>> = types.iter().map(|t| t.shifts.iter().map(|_| rng.chance(0.6)).collect()).collect();
    // the unknown start replaces the first shift start of the first type
    if has_unknown {
        shift_has_end[0][0] = false;
    }
    let fleet_slots: usize = shift_has_end.iter().flatten().map(|e| 1 + *e as usize).sum::<usize>() - has_unknown as usize;
    let slots = job_slots + fleet_slots;
    let n = rng.range_usize(1, 6).min(slots);
    let mut order: Vec<usize> = (0..slots).collect();
    rng.shuffle(&mut order);
    let mut slot_loc = vec![0usize; slots];
    for (k, s) in order.iter().enumerate() {
        slot_loc[*s] = if k < n { k } else { rng.usize_below(n) };
    }
    let points = if coords { gen_points(rng, n) } else { vec![] };
    // expected index: identity for references, first appearance for coordinates
    let mut index_of = vec![usize::MAX; n];
    if coords {
        let mut next = 0;
        for &l in slot_loc.iter() {
            if index_of[l] == usize::MAX {
                index_of[l] = next;
                next += 1;
            }
        }
    } else {
        (0..n).for_each(|l| index_of[l] = l);
    }
    let loc_json = |l: usize| if coords { json!({"lat": points[l].0, "lng": points[l].1}) } else { json!({"index": l}) };

    let mut cursor = 0;
    let mut jobs = vec![];
    for (j, (kind, tasks)) in job_shapes.iter().enumerate() {
        let tasks_json: Vec<Value> = tasks
            .iter()
            .map(|places| {
                let places_json: Vec<Value> = (0..*places)
                    .map(|_| {
                        let l = slot_loc[cursor];
                        cursor += 1;
                        json!({"location": loc_json(l), "duration": 10.0})
                    })
                    .collect();
                if *kind == "services" { json!({"places": places_json}) } else { json!({"places": places_json, "demand": [1]}) }
            })
            .collect();
        let mut job = serde_json::Map::new();
        job.insert("id".into(), json!(format!("job{j}")));
        job.insert((*kind).into(), Value::Array(tasks_json));
        jobs.push(Value::Object(job));
    }
    let mut vehicles = vec![];
    for (ti, t) in types.iter_mut().enumerate() {
        let mut shifts_json = vec![];
        for si in 0..t.shifts.len() {
            let unknown_start = has_unknown && ti == 0 && si == 0;
            let start = if unknown_start {
                UNKNOWN
            } else {
                cursor += 1;
                slot_loc[cursor - 1]
            };
            let end = if shift_has_end[ti][si] {
                cursor += 1;
                Some(slot_loc[cursor - 1])
            } else {
                None
            };
            t.shifts[si] = (start, end);
            let (from, to) = (T0 + si as i64 * 50_000, T0 + si as i64 * 50_000 + 40_000);
            let start_loc = if unknown_start { json!({"type": "unknown"}) } else { loc_json(start) };
            let mut shift = json!({"start": {"earliest": rfc3339(from, 0), "location": start_loc}});
            if let Some(end) = end {
                shift["end"] = json!({"latest": rfc3339(to, 0), "location": loc_json(end)});
            }
            let brk = if rng.chance(0.3) { Some((from + 30_000, from + 30_000 + rng.range_i64(0, 600), *rng.pick(&[60i64, 600, 1800]))) } else { None };
            if let Some((earliest, latest, duration)) = brk {
                shift["breaks"] = json!([{"time": {"earliest": rfc3339(earliest, 0), "latest": rfc3339(latest, 0)}, "duration": duration as f64}]);
            }
            t.required_breaks.push(brk);
            shifts_json.push(shift);
        }
        let mut profile = json!({"matrix": t.profile});
        if let Some(scale) = t.scale {
            profile["scale"] = json!(scale);
        }
        vehicles.push(json!({
            "typeId": t.type_id, "vehicleIds": t.ids, "profile": profile,
            "costs": {"fixed": 10.0, "distance": t.cost_distance, "time": t.cost_time},
            "shifts": shifts_json, "capacity": [10]
        }));
    }
    assert_eq!(cursor, slots, "slot bookkeeping");

    let speeds = [None, Some(5.0), Some(13.9), Some(27.7)];
    let profiles_json: Vec<Value> = profiles
        .iter()
        .map(|p| if with_matrices { json!({"name": p}) } else { rng.pick(&speeds).map_or(json!({"name": p}), |s| json!({"name": p, "speed": s})) })
        .collect();
    let problem = json!({"plan": {"jobs": jobs}, "fleet": {"vehicles": vehicles, "profiles": profiles_json}});

    // matrices
    let mut matrices = vec![];
    let mut negative_code_cells = vec![];
    if with_matrices {
        let cells = n * n;
        let unnamed = profiles.len() == 1 && !aware && rng.chance(0.3);
        let layout: Vec<(String, Option<i64>)> = profiles
            .iter()
            .flat_map(|p| {
                if aware {
                    let k = rng.range_usize(2, 4);
                    let mut t = T0 + rng.range_i64(-100_000, 100_000);
                    let mut v = vec![];
                    for _ in 0..k {
                        v.push((p.clone(), Some(t)));
                        t += *rng.pick(&[1, 2, 7, 60, 3600, 86_400, 12_345]);
                    }
                    v
                } else {
                    vec![(p.clone(), None)]
                }
            })
            .collect();
        let tts = distinct_ints(rng, layout.len() * cells, 1);
        let dists = distinct_ints(rng, layout.len() * cells, 2);
        // flags per profile (the same cells in every matrix of the profile)
        let flags: Vec<(String, Option<Vec<bool>>, Option<usize>)> = profiles
            .iter()
            .map(|p| {
                if rng.chance(0.6) {
                    let density = *rng.pick(&[0.0, 0.15, 0.3, 0.6]);
                    let f: Vec<bool> = (0..cells).map(|_| rng.chance(density)).collect();
                    let unflagged: Vec<usize> = (0..cells).filter(|c| !f[*c]).collect();
                    let neg = if rng.chance(0.15) && !unflagged.is_empty() { Some(*rng.pick(&unflagged)) } else { None };
                    (p.clone(), Some(f), neg)
                } else {
                    (p.clone(), None, None)
                }
            })
            .collect();
        for (i, (p, ts)) in layout.iter().enumerate() {
            let (_, f, neg) = flags.iter().find(|(name, _, _)| name == p).unwrap();
            let err = f.as_ref().map(|f| (0..cells).map(|c| if f[c] { rng.range_i64(1, 9) } else if *neg == Some(c) { -3 } else { 0 }).collect::<Vec<_>>());
            matrices.push(PMatrix {
                profile: p.clone(),
                named: !unnamed,
                ts: *ts,
                ts_offset_min: *rng.pick(&[0, 0, 0, 120, -330]),
                tt: tts[i * cells..(i + 1) * cells].to_vec(),
                dist: dists[i * cells..(i + 1) * cells].to_vec(),
                err,
            });
        }
        for (p, _, neg) in flags.iter() {
            if let Some(c) = neg {
                negative_code_cells.push((p.clone(), *c));
            }
        }
        rng.shuffle(&mut matrices);
    }

    PragCase { coords, n, aware, points, index_of, profiles, types, matrices, negative_code_cells, has_unknown, problem }
}

impl PragCase {
    fn digest(&self) -> u64 {
        let mut h = 0xcbf2_9ce4_8422_2325u64;
        let text = self.problem.to_string();
        text.bytes().for_each(|b| fnv(&mut h, b as u64));
        for m in &self.matrices {
            m.to_json().to_string().bytes().for_each(|b| fnv(&mut h, b as u64));
        }
        h
    }

    fn artefact(&self, part: &str, case_seed: u64, extra: Value) -> Value {
        json!({"part": part, "case_seed": case_seed.to_string(), "problem": self.problem,
               "matrices": self.matrices.iter().map(|m| m.to_json()).collect::<Vec<_>>(),
               "expected_index_of_location_id": self.index_of, "query": extra})
    }

    fn matrices_of(&self, profile: &str) -> Vec<&PMatrix> {
        let mut v: Vec<&PMatrix> = self.matrices.iter().filter(|m| m.profile == profile).collect();
        v.sort_by_key(|m| m.ts);
        v
    }
}

fn pragmatic_case(run: &Run, case_seed: u64) {
    let mut rng = Rng::new(case_seed);
    let mut case = gen_pragmatic_case(&mut rng, true);
    if rng.chance(0.25) {
        return pragmatic_reject(run, case_seed, &mut case, &mut rng);
    }
    let kind = if case.aware { "time-aware" } else { "time-agnostic" };
    run.observe("pragmatic.kind", kind);
    run.observe("pragmatic.locations", if case.coords { "coordinate" } else { "index" });
    run.observe("pragmatic.size", &case.n.to_string());
    if case.profiles.len() >= 2 {
        run.observe("pragmatic.features", "profiles>=2");
    }
    if case.types.iter().any(|t| t.scale.unwrap_or(1.0) != 1.0) {
        run.observe("pragmatic.features", "scale!=1");
    }
    if case.types.iter().any(|a| case.types.iter().any(|b| a.type_id != b.type_id && a.profile == b.profile)) {
        run.observe("pragmatic.features", "types-sharing-a-profile");
    }
    if case.has_unknown {
        run.observe("pragmatic.features", "unknown-location");
    }
    if case.matrices.iter().any(|m| !m.named) {
        run.observe("pragmatic.features", "unnamed-single-matrix");
    }
    if case.matrices.iter().any(|m| m.ts_offset_min != 0) {
        run.observe("pragmatic.features", "timestamp-with-utc-offset");
    }
    let art = |extra: Value| case.artefact("pragmatic", case_seed, extra);
    let problem_text = case.problem.to_string();
    let matrix_texts: Vec<String> = case.matrices.iter().map(|m| m.to_json().to_string()).collect();

    let problem = match run.guard(|| (problem_text.clone(), matrix_texts.clone()).read_pragmatic()) {
        Ok(Ok(p)) => p,
        Ok(Err(err)) => {
            run.eval();
            run.violation(&format!("C16|pragmatic|{kind}|valid-document-rejected"), &format!("a valid problem with consistent matrices was rejected: {}", vverif::clip(&err.to_string(), 300)), art(Value::Null));
            return;
        }
        Err(info) => {
            run.eval();
            return report_panic(run, &format!("C16|pragmatic|{kind}|read"), &info, art(Value::Null));
        }
    };

    let outcome = run.guard(|| {
        let mut rep = Reporter::new(run);
        let mut obs = Obs::default();
        let mut evals = 0u64;
        let n = case.n;

        // location -> index mapping: documented order of first appearance (jobs, then fleet) / the index itself
        if let Ok(api) = deserialize_problem(std::io::BufReader::new(problem_text.as_bytes())) {
            let unique = vrp_pragmatic::get_unique_locations(&api);
            let normal: Vec<&ApiLocation> = unique.iter().filter(|l| !matches!(l, ApiLocation::Custom { .. })).collect();
            evals += 1;
            let mut expected: Vec<(usize, usize)> = (0..n).map(|l| (case.index_of[l], l)).collect();
            expected.sort();
            let same = normal.len() == n
                && expected.iter().zip(normal.iter()).all(|((_, l), got)| match got {
                    ApiLocation::Coordinate { lat, lng } => case.coords && *lat == case.points[*l].0 && *lng == case.points[*l].1,
                    ApiLocation::Reference { index } => !case.coords && index == l,
                    _ => false,
                });
            if !same {
                rep.report("C16|pragmatic|location-order".into(), || format!("get_unique_locations does not list the locations in the documented order: {:?}", normal), || art(Value::Null));
            }
        }
        let coord_index = problem.extras.get_coord_index();
        if let Some(ci) = coord_index.as_ref() {
            for l in 0..n {
                let loc = if case.coords { ApiLocation::Coordinate { lat: case.points[l].0, lng: case.points[l].1 } } else { ApiLocation::Reference { index: l } };
                evals += 1;
                let got = ci.get_by_loc(&loc);
                if got != Some(case.index_of[l]) {
                    rep.report("C16|pragmatic|location-index".into(), || format!("location {loc:?} is mapped to matrix index {got:?}, documented order gives {}", case.index_of[l]), || art(Value::Null));
                }
            }
        }
        evals += 1;
        if problem.transport.size() != n {
            let size = problem.transport.size();
            rep.report("C16|pragmatic|size".into(), || format!("transport.size() = {size}, matrices are {n}x{n}"), || art(Value::Null));
        }

        let mut nontrivial = false;
        let (mut class_n, mut reachable_n, mut unreachable_n) = ([0u64; 5], 0u64, 0u64);
        for actor in problem.fleet.actors.iter() {
            let vehicle_id = actor.vehicle.dimens.get_vehicle_id().cloned().unwrap_or_default();
            let Some(t) = case.types.iter().find(|t| t.ids.contains(&vehicle_id)) else {
                rep.report("C16|pragmatic|unknown-actor".into(), || format!("actor with vehicle id '{vehicle_id}' is not in the document"), || art(Value::Null));
                continue;
            };
            let scale = t.scale.unwrap_or(1.0);
            evals += 1;
            if actor.vehicle.profile.scale != scale {
                let got = actor.vehicle.profile.scale;
                rep.report("C16|pragmatic|profile-scale".into(), || format!("vehicle {vehicle_id}: profile scale {got}, document says {scale}"), || art(Value::Null));
            }
            // the actor's own start/end locations use the same index space
            let start_idx = actor.detail.start.as_ref().map(|s| s.location);
            let matches_shift = t.shifts.iter().any(|(s, e)| {
                let s_ok = if *s == UNKNOWN { start_idx.is_some_and(|i| i >= n * n) } else { start_idx == Some(case.index_of[*s]) };
                let e_ok = actor.detail.end.as_ref().map(|e| e.location) == e.map(|e| case.index_of[e]);
                s_ok && e_ok
            });
            evals += 1;
            if !matches_shift {
                rep.report("C16|pragmatic|actor-location-index".into(), || format!("vehicle {vehicle_id}: start/end location indices {:?}/{:?} match no shift of its type under the documented mapping", start_idx, actor.detail.end.as_ref().map(|e| e.location)), || art(Value::Null));
            }

            let ms = case.matrices_of(&t.profile);
            let fl: Vec<Vec<f64>> = ms.iter().map(|m| m.tt.iter().map(|v| *v as f64).collect()).collect();
            let fd: Vec<Vec<f64>> = ms.iter().map(|m| m.dist.iter().map(|v| *v as f64).collect()).collect();
            let spec_ms: Vec<(Option<i64>, &[f64], &[f64])> = ms.iter().enumerate().map(|(i, m)| (m.ts, fl[i].as_slice(), fd[i].as_slice())).collect();
            let flagged = |cell: usize| ms.iter().any(|m| m.err.as_ref().is_some_and(|e| e[cell] > 0));
            let negative_code = |cell: usize| case.negative_code_cells.iter().any(|(p, c)| *p == t.profile && *c == cell);
            let mut times: Vec<i64> = if case.aware { query_times(&ms.iter().map(|m| m.ts.unwrap()).collect::<Vec<_>>(), &mut Rng::new(case_seed ^ 0x5EED)) } else { vec![T0, 0] };
            times.sort();
            times.dedup();
            let route = route_of(actor);
            // reserved time of this actor's shift (required break): trips touching it are legitimately longer
            let reserved = actor.vehicle.dimens.get_shift_index().and_then(|si| t.required_breaks.get(*si).copied().flatten());
            if case.types.iter().any(|t| t.required_breaks.iter().any(|b| b.is_some())) {
                obs.hit("pragmatic.provider", if reserved.is_some() { "reserved-time wrapper, actor with a required break" } else { "reserved-time wrapper, actor without a required break" });
            } else {
                obs.hit("pragmatic.provider", "plain matrix provider");
            }
            if n >= 2 && (case.profiles.len() >= 2 || case.aware || scale != 1.0 || ms.iter().any(|m| m.err.is_some())) {
                nontrivial = true;
            }

            for a in 0..n {
                for b in 0..n {
                    // a, b are expected matrix indices
                    let cell = a * n + b;
                    for &tq in times.iter() {
                        let e = spec_at(&spec_ms, cell, tq);
                        let d = problem.transport.duration(&route, a, b, TravelTime::Departure(tq as f64));
                        let s = problem.transport.distance(&route, a, b, TravelTime::Departure(tq as f64));
                        evals += 2;
                        class_n[class_idx(e.class)] += 1;
                        let q = |got: f64, exp: f64| json!({"vehicle": vehicle_id, "profile": t.profile, "scale": scale, "from_index": a, "to_index": b, "t": tq, "got": got, "expected": exp});
                        if negative_code(cell) {
                            let key = if d < 0. && s < 0. {
                                "pragmatic|negative-error-code:unreachable"
                            } else if s == e.dist {
                                "pragmatic|negative-error-code:reachable"
                            } else {
                                "pragmatic|negative-error-code:other"
                            };
                            obs.hit("unspecified", key);
                            continue;
                        }
                        if flagged(cell) {
                            unreachable_n += 1;
                            if !(d < 0.) {
                                rep.report(format!("C16|pragmatic|{kind}|errorCodes-duration-not-negative"), || format!("entry ({a},{b}) has errorCodes > 0 but duration = {d}"), || art(q(d, -1.)));
                            }
                            if !(s < 0.) {
                                rep.report(format!("C16|pragmatic|{kind}|errorCodes-distance-not-negative"), || format!("entry ({a},{b}) has errorCodes > 0 but distance = {s}"), || art(q(s, -1.)));
                            }
                            continue;
                        }
                        reachable_n += 1;
                        let exp_dur = e.dur * scale;
                        let exact = e.class != "between-brackets";
                        let touches_reserved = reserved.is_some_and(|(earliest, latest, duration)| (tq as f64) <= (latest + duration + 1) as f64 && tq as f64 + exp_dur.max(d) >= (earliest - 1) as f64);
                        if touches_reserved {
                            obs.hit("pragmatic.entries", "duration not judged: trip touches the reserved time");
                        }
                        let dur_ok = touches_reserved || if exact { d == exp_dur } else { close(d, exp_dur) };
                        if !dur_ok {
                            let te = spec_at(&spec_ms, b * n + a, tq);
                            let dg = if exact { diag(d, scale, e.dur, "scale-missing", te.dur * scale) } else { "-" };
                            rep.report(format!("C16|pragmatic|{kind}|duration|{}|diag={dg}", e.class), || format!("vehicle {vehicle_id} ({}, scale {scale}): duration({a},{b},t={tq}) = {d}, JSON gives {exp_dur}", t.profile), || art(q(d, exp_dur)));
                        }
                        if s != e.dist {
                            let te = spec_at(&spec_ms, b * n + a, tq);
                            let dg = diag(s, scale, e.dist * scale, "scale-unexpected", te.dist);
                            rep.report(format!("C16|pragmatic|{kind}|distance|{}|diag={dg}", e.class), || format!("vehicle {vehicle_id} ({}): distance({a},{b},t={tq}) = {s}, JSON gives {}", t.profile, e.dist), || art(q(s, e.dist)));
                        }
                    }
                    // time independent view of time-agnostic data
                    if !case.aware && !flagged(cell) && !negative_code(cell) {
                        let da = problem.transport.duration_approx(&actor.vehicle.profile, a, b);
                        let sa = problem.transport.distance_approx(&actor.vehicle.profile, a, b);
                        evals += 2;
                        if da != fl[0][cell] * scale {
                            rep.report(format!("C16|pragmatic|{kind}|duration_approx|entry"), || format!("duration_approx({a},{b}) = {da}, JSON gives {}", fl[0][cell] * scale), || art(Value::Null));
                        }
                        if sa != fd[0][cell] {
                            rep.report(format!("C16|pragmatic|{kind}|distance_approx|entry"), || format!("distance_approx({a},{b}) = {sa}, JSON gives {}", fd[0][cell]), || art(Value::Null));
                        }
                    }
                }
                // documented (experimental): a location of type `unknown` has zero distance/duration to any other
                if let Some(u) = start_idx.filter(|i| *i >= n * n) {
                    for (x, y) in [(u, a), (a, u)] {
                        let d = problem.transport.duration(&route, x, y, TravelTime::Departure(T0 as f64));
                        let s = problem.transport.distance(&route, x, y, TravelTime::Departure(T0 as f64));
                        evals += 2;
                        obs.hit("pragmatic.entries", "unknown-location");
                        if d != 0. || s != 0. {
                            rep.report("C16|pragmatic|unknown-location-not-zero".into(), || format!("unknown-type location {u} <-> {a}: duration {d}, distance {s} (documented: zero)"), || art(Value::Null));
                        }
                    }
                }
            }
        }
        if nontrivial {
            run.nontrivial(&format!("pragmatic|{:016x}", case.digest()));
        }
        for (i, class) in CLASSES.iter().enumerate().skip(1) {
            obs.hit_n("pragmatic.time-class", class, class_n[i]);
        }
        obs.hit_n("pragmatic.entries", "reachable", reachable_n);
        obs.hit_n("pragmatic.entries", "unreachable", unreachable_n);
        obs.flush(run);
        evals
    });
    match outcome {
        Ok(evals) => run.eval_n(evals),
        Err(info) => {
            run.eval();
            report_panic(run, &format!("C16|pragmatic|{kind}|query"), &info, art(Value::Null));
        }
    }
    if case.n == 2 && case.matrices.len() <= 2 && case.matrices.iter().any(|m| m.err.is_some()) && take_sample("pragmatic") {
        run.sample(case.artefact("pragmatic", case_seed, Value::Null));
    }
}

/// Injects one documented inconsistency into the matrix set of a valid document: reading must fail with an error.
fn pragmatic_reject(run: &Run, case_seed: u64, case: &mut PragCase, rng: &mut Rng) {
    let aware = case.aware;
    let multi = case.profiles.len() >= 2;
    let mut applicable: Vec<&str> = vec!["travelTimes-distances-length-mismatch"];
    if multi {
        applicable.push("matrix-missing-for-a-profile");
    }
    if aware {
        applicable.push("timestamp-dropped-on-one-matrix");
        applicable.push("single-timestamped-matrix-for-a-profile");
    } else {
        applicable.push("duplicate-time-agnostic-profile");
    }
    if case.matrices.len() >= 2 && case.matrices.iter().all(|m| m.named) {
        applicable.push("profile-name-on-some-matrices-only");
    }
    let class = *rng.pick(&applicable);
    match class {
        "travelTimes-distances-length-mismatch" => {
            let v = rng.usize_below(case.matrices.len());
            case.matrices[v].err = None;
            if case.matrices[v].tt.len() > 1 && rng.chance(0.5) {
                case.matrices[v].tt.pop();
            } else {
                case.matrices[v].tt.push(999_999);
            }
        }
        "matrix-missing-for-a-profile" => {
            let p = rng.pick(&case.profiles).clone();
            case.matrices.retain(|m| m.profile != p);
        }
        "timestamp-dropped-on-one-matrix" => {
            let v = rng.usize_below(case.matrices.len());
            case.matrices[v].ts = None;
        }
        "single-timestamped-matrix-for-a-profile" => {
            let p = rng.pick(&case.profiles).clone();
            let mut kept = false;
            case.matrices.retain(|m| {
                if m.profile != p {
                    return true;
                }
                let keep = !kept;
                kept = true;
                keep
            });
        }
        "duplicate-time-agnostic-profile" => {
            let v = rng.usize_below(case.matrices.len());
            let mut copy = case.matrices[v].clone();
            copy.tt.iter_mut().for_each(|x| *x += 1);
            case.matrices.push(copy);
        }
        "profile-name-on-some-matrices-only" => {
            let v = rng.usize_below(case.matrices.len());
            case.matrices[v].named = false;
        }
        _ => unreachable!(),
    }
    let problem_text = case.problem.to_string();
    let matrix_texts: Vec<String> = case.matrices.iter().map(|m| m.to_json().to_string()).collect();
    let res = run.guard(|| (problem_text, matrix_texts).read_pragmatic().map(|_| ()).map_err(|e| e.to_string()));
    run.eval();
    run.nontrivial(&format!("pragmatic-reject|{class}|{:016x}", case.digest()));
    let art = || {
        let mut a = case.artefact("pragmatic", case_seed, Value::Null);
        a["injected"] = json!(class);
        a
    };
    match res {
        Err(info) => report_panic(run, &format!("C16|pragmatic|reject|{class}"), &info, art()),
        Ok(r) => {
            run.observe("pragmatic.reject", &format!("{class}:{}", if r.is_ok() { "Ok" } else { "Err" }));
            if r.is_ok() {
                run.violation(&format!("C16|pragmatic|reject|{class}-accepted"), &format!("a document whose matrix set is inconsistent ({class}) was read without an error"), art());
            }
        }
    }
}

// ---------------------------------------------------------------------------------------------
// part `approx`: coordinate based approximation of the pragmatic format

fn check_symmetric_matrix(rep: &mut Reporter, sig_prefix: &str, name: &str, values: &[i64], n: usize, art: &dyn Fn(Value) -> Value) -> u64 {
    let mut evals = 1;
    if values.len() != n * n {
        rep.report(format!("{sig_prefix}|{name}|wrong-length"), || format!("{name} has {} entries for {n} unique locations", values.len()), || art(Value::Null));
        return evals;
    }
    for a in 0..n {
        evals += 1;
        if values[a * n + a] != 0 {
            rep.report(format!("{sig_prefix}|{name}|diagonal-not-zero"), || format!("{name}[{a},{a}] = {}", values[a * n + a]), || art(json!({"a": a})));
        }
        for b in 0..n {
            evals += 1;
            if values[a * n + b] < 0 {
                rep.report(format!("{sig_prefix}|{name}|negative"), || format!("{name}[{a},{b}] = {}", values[a * n + b]), || art(json!({"a": a, "b": b})));
            }
            if b > a && values[a * n + b] != values[b * n + a] {
                rep.report(format!("{sig_prefix}|{name}|asymmetric"), || format!("{name}[{a},{b}] = {} but [{b},{a}] = {}", values[a * n + b], values[b * n + a]), || art(json!({"a": a, "b": b})));
            }
        }
    }
    evals
}

fn approx_case(run: &Run, case_seed: u64) {
    let mut rng = Rng::new(case_seed);
    let case = gen_pragmatic_case(&mut rng, false);
    let n = case.n;
    let art = |extra: Value| case.artefact("approx", case_seed, extra);
    let problem_text = case.problem.to_string();
    let api = match deserialize_problem(std::io::BufReader::new(problem_text.as_bytes())) {
        Ok(api) => api,
        Err(err) => {
            println!("INCONCLUSIVE property=C16 generated approx problem does not deserialize: {err}");
            run.inconclusive("generated document does not deserialize");
            return;
        }
    };
    if n >= 2 {
        run.nontrivial(&format!("approx|{:016x}", case.digest()));
    }
    run.observe("approx.size", &n.to_string());

    // (a) the public matrix factory
    match run.guard(|| create_approx_matrices(&api)) {
        Err(info) => {
            run.eval();
            report_panic(run, "C16|approx|create_approx_matrices", &info, art(Value::Null));
        }
        Ok(matrices) => {
            run.observe("approx", "create_approx_matrices");
            let mut rep = Reporter::new(run);
            let mut evals = 1u64;
            let names: Vec<Option<String>> = matrices.iter().map(|m: &Matrix| m.profile.clone()).collect();
            let expected: Vec<Option<String>> = case.profiles.iter().map(|p| Some(p.clone())).collect();
            let same_set = names.iter().collect::<BTreeSet<_>>() == expected.iter().collect::<BTreeSet<_>>() && names.len() == expected.len();
            if !same_set {
                rep.report("C16|approx|matrices|profiles".into(), || format!("approximated matrices are for profiles {names:?}, fleet profiles are {expected:?}"), || art(Value::Null));
            }
            for m in matrices.iter() {
                let dump = |extra: Value| art(json!({"matrix_profile": m.profile, "travelTimes": m.travel_times, "distances": m.distances, "at": extra}));
                evals += check_symmetric_matrix(&mut rep, "C16|approx|matrices", "distances", &m.distances, n, &dump);
                evals += check_symmetric_matrix(&mut rep, "C16|approx|matrices", "travelTimes", &m.travel_times, n, &dump);
            }
            run.eval_n(evals);
            if n == 2 && matrices.len() == 1 && take_sample("approx") {
                run.sample(json!({"part": "approx", "case_seed": case_seed.to_string(), "points": case.points, "distances": matrices[0].distances, "travelTimes": matrices[0].travel_times}));
            }
        }
    }

    // (b) the provider a problem gets when no matrix is passed
    match run.guard(|| problem_text.clone().read_pragmatic()) {
        Err(info) => {
            run.eval();
            report_panic(run, "C16|approx|read", &info, art(Value::Null));
        }
        Ok(Err(err)) => {
            run.eval();
            run.violation("C16|approx|valid-document-rejected", &format!("a valid coordinate problem was rejected: {}", vverif::clip(&err.to_string(), 300)), art(Value::Null));
        }
        Ok(Ok(problem)) => {
            run.observe("approx", "read_pragmatic(approx)");
            let outcome = run.guard(|| {
                let mut rep = Reporter::new(run);
                let mut evals = 0u64;
                for actor in problem.fleet.actors.iter() {
                    let route = route_of(actor);
                    let tt = TravelTime::Departure(T0 as f64);
                    for a in 0..n {
                        for b in a..n {
                            let (dab, dba) = (problem.transport.duration(&route, a, b, tt), problem.transport.duration(&route, b, a, tt));
                            let (sab, sba) = (problem.transport.distance(&route, a, b, tt), problem.transport.distance(&route, b, a, tt));
                            evals += 2;
                            let q = || art(json!({"a": a, "b": b, "duration": [dab, dba], "distance": [sab, sba], "scale": actor.vehicle.profile.scale}));
                            if a == b && (dab != 0. || sab != 0.) {
                                rep.report("C16|approx|transport|diagonal-not-zero".into(), || format!("approximated routing ({a},{a}): duration {dab}, distance {sab}"), q);
                            }
                            if dab != dba {
                                rep.report("C16|approx|transport|duration-asymmetric".into(), || format!("approximated duration ({a},{b}) = {dab}, ({b},{a}) = {dba}"), q);
                            }
                            if sab != sba {
                                rep.report("C16|approx|transport|distance-asymmetric".into(), || format!("approximated distance ({a},{b}) = {sab}, ({b},{a}) = {sba}"), q);
                            }
                            if !(dab >= 0. && sab >= 0.) {
                                rep.report("C16|approx|transport|negative".into(), || format!("approximated routing ({a},{b}): duration {dab}, distance {sab}"), q);
                            }
                        }
                    }
                }
                evals
            });
            match outcome {
                Ok(evals) => run.eval_n(evals),
                Err(info) => {
                    run.eval();
                    report_panic(run, "C16|approx|query", &info, art(Value::Null));
                }
            }
        }
    }
}

// ---------------------------------------------------------------------------------------------
// part `scientific`: Euclid / rounded Euclid from integer coordinates

fn scientific_case(run: &Run, case_seed: u64) {
    let mut rng = Rng::new(case_seed);
    let rounded = rng.chance(0.5);
    run.observe("scientific", if rounded { "rounded" } else { "exact" });
    let count = rng.range_usize(1, 12);
    let span = *rng.pick(&[3i64, 10, 100, 1000, 100_000]);
    let raw: Vec<(i32, i32)> = (0..count).map(|_| (rng.range_i64(-span, span) as i32, rng.range_i64(-span, span) as i32)).collect();
    let art = |extra: Value| json!({"part": "scientific", "case_seed": case_seed.to_string(), "rounded": rounded, "coordinates": raw, "query": extra});
    let logger: vrp_core::prelude::InfoLogger = Arc::new(|_: &str| {});
    let built = run.guard(|| {
        let mut index = vrp_scientific::common::CoordIndex::default();
        let ids: Vec<usize> = raw.iter().map(|c| index.collect(*c)).collect();
        let transport = index.create_transport(rounded, &logger);
        (ids, index.locations.clone(), transport)
    });
    let (ids, locations, transport) = match built {
        Err(info) => {
            run.eval();
            return report_panic(run, "C16|scientific|create_transport", &info, art(Value::Null));
        }
        Ok((_, _, Err(err))) => {
            run.eval();
            run.violation("C16|scientific|construct|rejected", &format!("coordinate index of {count} points was rejected: {err}"), art(Value::Null));
            return;
        }
        Ok((ids, locations, Ok(t))) => (ids, locations, t),
    };
    let fleet = build_fleet(&[VSpec { profile: 0, scale: None, details: 1, per_distance: 1., per_time: 1. }], 1, 0., 0., &mut rng);
    let route = route_of(&fleet.actors[0]);
    let profile = Profile::new(0, None);
    let outcome = run.guard(|| {
        let mut rep = Reporter::new(run);
        let mut evals = 0u64;
        // own model of the index: first appearance order
        let mut model: Vec<(i32, i32)> = vec![];
        let model_ids: Vec<usize> = raw
            .iter()
            .map(|c| match model.iter().position(|m| m == c) {
                Some(p) => p,
                None => {
                    model.push(*c);
                    model.len() - 1
                }
            })
            .collect();
        evals += 1;
        if model_ids != ids || model != locations {
            rep.report("C16|scientific|location-index".into(), || format!("collect() returned {ids:?}, first-appearance order gives {model_ids:?}"), || art(Value::Null));
            return evals;
        }
        let n = model.len();
        if n >= 2 {
            let mut h = 0xcbf2_9ce4_8422_2325u64;
            fnv(&mut h, rounded as u64);
            model.iter().for_each(|c| {
                fnv(&mut h, c.0 as u64);
                fnv(&mut h, c.1 as u64)
            });
            run.nontrivial(&format!("scientific|{h:016x}"));
        }
        evals += 1;
        if transport.size() != n {
            rep.report("C16|scientific|size".into(), || format!("size() = {}, {n} unique locations", transport.size()), || art(Value::Null));
        }
        for a in 0..n {
            for b in 0..n {
                let tt = TravelTime::Departure(0.);
                let got = [transport.distance(&route, a, b, tt), transport.duration(&route, a, b, tt), transport.distance_approx(&profile, a, b), transport.duration_approx(&profile, a, b)];
                let back = transport.distance(&route, b, a, tt);
                let (dx, dy) = ((model[a].0 as f64) - (model[b].0 as f64), (model[a].1 as f64) - (model[b].1 as f64));
                let euclid = (dx * dx + dy * dy).sqrt();
                let exp = if rounded { euclid.round() } else { euclid };
                evals += 4;
                let q = || art(json!({"a": a, "b": b, "got": got, "reverse": back, "expected": exp}));
                if got.iter().any(|g| *g != got[0]) {
                    rep.report("C16|scientific|methods-disagree".into(), || format!("({a},{b}): distance/duration/approx give {got:?}"), q);
                }
                if a == b && got[0] != 0. {
                    rep.report("C16|scientific|diagonal-not-zero".into(), || format!("({a},{a}) = {}", got[0]), q);
                }
                if got[0] != back {
                    rep.report("C16|scientific|asymmetric".into(), || format!("({a},{b}) = {}, ({b},{a}) = {back}", got[0]), q);
                }
                if !(got[0] >= 0.) {
                    rep.report("C16|scientific|negative".into(), || format!("({a},{b}) = {}", got[0]), q);
                }
                if !close(got[0], exp) {
                    rep.report(format!("C16|scientific|{}|value", if rounded { "rounded-euclid" } else { "euclid" }), || format!("({a},{b}) = {}, coordinates give {exp}", got[0]), q);
                }
            }
        }
        if n == 2 && take_sample("scientific") {
            run.sample(json!({"part": "scientific", "case_seed": case_seed.to_string(), "rounded": rounded, "locations": model,
                "distance(0,1)": transport.distance(&route, 0, 1, TravelTime::Departure(0.)), "distance(1,0)": transport.distance(&route, 1, 0, TravelTime::Departure(0.))}));
        }
        evals
    });
    match outcome {
        Ok(evals) => run.eval_n(evals),
        Err(info) => {
            run.eval();
            report_panic(run, "C16|scientific|query", &info, art(Value::Null));
        }
    }
}
