//! Developer tool: generate problems, solve, replay with O1 and print issue statistics.
use vverif::pragen::{GenCfg, generate};
use vverif::replay::replay;
use vverif::solverun::*;
use vverif::{Rng, mix};
fn main() {
    let args: Vec<String> = std::env::args().collect();
    let seed: u64 = args.get(1).and_then(|s| s.parse().ok()).unwrap_or(1);
    let n: u64 = args.get(2).and_then(|s| s.parse().ok()).unwrap_or(1);
    let dir = args.get(3).cloned().filter(|d| d != "-");
    let only: Option<u64> = args.get(4).and_then(|s| s.parse().ok());
    if only.is_some() { vverif::run::set_panic_quiet(false); }
    let stats = std::sync::Mutex::new(std::collections::BTreeMap::<String, u64>::new());
    let bump = |k: String| { *stats.lock().unwrap().entry(k).or_default() += 1; };
    vverif::par_for(4, n, &|| false, &|i| {
        if only.is_some_and(|o| o != i) { return; }
        let mut rng = Rng::new(mix(seed, i));
        let p = generate(&mut rng, &GenCfg::default());
        match read_problem(&p) {
            ReadOutcome::Ok(problem) => {
                let (cfg, _shape) = gen_config(&mut rng, 30, None);
                match solve_with_config(problem, &cfg) {
                    SolveOutcome::Ok(s) => {
                        bump("ok".into());
                        let sol: serde_json::Value = serde_json::from_str(&s).unwrap();
                        if let Some(d) = &dir {
                            std::fs::create_dir_all(d).unwrap();
                            std::fs::write(format!("{d}/p{i}.json"), serde_json::to_string_pretty(&p.problem).unwrap()).unwrap();
                            std::fs::write(format!("{d}/m{i}.json"), serde_json::to_string(&p.matrices).unwrap()).unwrap();
                            std::fs::write(format!("{d}/s{i}.json"), &s).unwrap();
                            std::fs::write(format!("{d}/c{i}.json"), serde_json::to_string_pretty(&cfg).unwrap()).unwrap();
                        }
                        match replay(&p.problem, &p.matrices, &sol) {
                            Ok(rep) => {
                                for is in rep.issues.iter() {
                                    bump(format!("issue:{}:{}", is.prop, is.rule));
                                    println!("case {i}: {} {} {}", is.prop, is.rule, vverif::clip(&is.detail, 300));
                                }
                                for pz in rep.partial.iter() { bump(format!("partial:{pz}")); }
                                for (r, (e, b)) in rep.rules.iter() { *stats.lock().unwrap().entry(format!("rule:{r}:evaluated")).or_default() += e; *stats.lock().unwrap().entry(format!("rule:{r}:binding")).or_default() += b; }
                            }
                            Err(e) => { bump(format!("replay-err:{e}")); println!("case {i}: replay err {e}"); }
                        }
                    }
                    SolveOutcome::Err(e) => { bump(format!("solve-err:{}", vverif::clip(&e, 80))); println!("case {i}: solve err {}", vverif::clip(&e, 300)); }
                    SolveOutcome::Panic(pi) => { bump(format!("panic:{}", pi.location)); println!("case {i}: PANIC {pi:?} {}", p.shape()); }
                }
            }
            ReadOutcome::Err(codes, text) => { bump(format!("invalid:{codes:?}")); println!("case {i}: invalid {codes:?} {} {}", p.shape(), vverif::clip(&text, 300)); }
            ReadOutcome::Panic(pi) => { bump(format!("read-panic:{}", pi.location)); println!("case {i}: READ PANIC {pi:?}"); }
        }
    });
    println!("{:#?}", stats.lock().unwrap());
}
