//! C01 – returned tours never violate a hard constraint: end-to-end solves (generated problems × generated solver
//! configurations, CLI JSON-config path) judged by the independent replayer O1 (DESIGN.md §3 C01, src/solvecheck.rs).
use vverif::Run;
use vverif::solvecheck::{replay_artefact, run_end_to_end};

fn main() {
    let run = Run::from_args(
        "C01",
        "exploration",
        "case = seeded pragmatic problem (G1: 4-120 jobs; deliveries/pickups/pickup-delivery/service/replacement/mixed jobs, 1-3 capacity dimensions, \
         time windows, multi-place tasks, skills, groups, compatibility, order, limits, optional breaks, reloads incl. shared resources, open/closed shifts, \
         multi-shift, scale, asymmetric metric matrices, unreachable legs, custom objective lists) x seeded solver config (G2: population, hyper-heuristic, \
         operator groups from every config-schema operator, initial methods, termination, pools x threads) solved through read_config -> get_solution_serialized; \
         a share of the cases is re-solved with relations derived from a feasible tour, another share with maxDistance / maxDuration / tourSize / shift end tightened to just below what a feasible solution uses (so that those rules bind). Oracle: O1 replays the solution JSON from the documents only. \
         Non-trivial = at least one tour and (a hard rule binding: slack <= 1 unit, for distance / duration / shift end <= a tenth of the limit, or a job unassigned); distinct by (problem shape, config shape, phase).",
        200,
        600,
    );
    if let Some(path) = run.replay.clone() {
        replay_artefact(&run, "C01", &path);
        run.finish();
    }
    run.assume("O1 (src/replay.rs) encodes the documented rules; index locations with explicit integral matrices; time-independent routing");
    run.assume("required breaks and recharge stations are outside this check's workload; tours with stops produced by vicinity clustering (12 % of the problems use it) are replayed partially: capacity, tour size, compatibility, skills, groups, order and relations are judged as everywhere, time windows from the reported activity times; reachability and the distance / duration limits of such tours are NOT judged (commute legs are not in the stop sequence and the reported cumulative distances are not monotone there)");
    run.assume("relations are derived from sub-sequences of a feasible tour of the same problem (the documentation requires user relations to be consistent)");
    run.assume("tourSize is asserted on customer activities only (the documentation's wording); the solver is not seed-replayable, VERIF_SEED seeds the generators");
    run_end_to_end(&run, "C01");
    run.floor("solves judged by O1", run.evaluations(), run.by_tier(60, 400));
    run.floor("distinct non-trivial (problem shape, config shape) pairs", run.distinct_nontrivial(), 20);
    for rule in ["capacity", "time-window", "shift-start", "shift-end", "skills", "group", "compatibility", "order", "max-distance", "max-duration", "tour-size", "reload-window", "break-window"] {
        run.floor(&format!("rule '{rule}' evaluated"), run.observed("rule_evaluated", rule), 1);
    }
    run.floor("problems with vicinity clustering", run.observed("features", "clustering"), run.by_tier(20, 100));
    run.floor("problems with a location which can be reached but not left (outgoing legs flagged unreachable)", run.observed("features", "unreachable-outgoing-only"), run.by_tier(10, 50));
    run.floor("relation phase exercised", run.observed("phase", "relations"), 1);
    run.floor("problems with two relations on one vehicle shift", run.observed_keys("relations_sharing_a_shift").iter().map(|k| run.observed("relations_sharing_a_shift", k)).sum(), run.by_tier(10, 100));
    run.floor("tightened-limits phase exercised", run.observed("phase", "tightened"), run.by_tier(5, 40));
    for rule in ["capacity", "time-window", "max-distance", "max-duration", "tour-size", "shift-end"] {
        run.floor(&format!("rule '{rule}' binding in a returned tour"), run.observed("rule_binding", rule), run.by_tier(2, 10));
    }
    run.finish();
}
