//! C19 – the self-organising population keeps a well-formed map.
//!
//! Invariant monitor evaluated after every public operation on
//!  (a) `rosomaxa::algorithms::gsom::Network`, driven through its public API with the harness's own
//!      `Input` / `Storage` / `StorageFactory` (a capacity-aware storage that counts everything it was given,
//!      what it dropped and whether it was destroyed while still holding data), and
//!  (b) the `Rosomaxa` population with `rosomaxa::example::{VectorSolution, VectorObjective, VectorRosomaxaContext}`,
//!      looked into through `NetworkState::try_from(&population)` and `HeuristicPopulation`.
//!
//! The oracle is written from the property text: coordinates unique and equal to node identity, `find` exact,
//! weights finite and of the input dimension, node storage within `node_size`, error measures finite and
//! non-negative, compaction never grows the map nor leaves fewer than four nodes, individuals held never exceed
//! individuals offered, phases only move forward, elite within `elite_size`.

use rosomaxa::algorithms::gsom::{
    Coordinate, Input, Network, NetworkConfig, NetworkState, Storage, StorageFactory, get_network_state,
};
use rosomaxa::example::{VectorObjective, VectorRosomaxaContext, VectorSolution};
use rosomaxa::population::{Rosomaxa, RosomaxaConfig};
use rosomaxa::prelude::*;
use rosomaxa::utils::{Parallelism, Timer};
use serde_json::{Value, json};
use std::collections::HashSet;
use std::fmt::{Display, Formatter};
use std::ops::RangeBounds;
use std::sync::atomic::{AtomicBool, AtomicU64, Ordering as AtomicOrdering};
use std::sync::{Arc, Mutex};
use vverif::{Rng, Run, mix, par_for};

static NETWORK_SAMPLES: AtomicU64 = AtomicU64::new(0);
static POPULATION_SAMPLES: AtomicU64 = AtomicU64::new(0);
static NODE_ERROR_INF_NOTED: AtomicU64 = AtomicU64::new(0);

// ---------------------------------------------------------------------------------------------
// harness-side Input / Storage / StorageFactory

/// An input with an identity (ids are unique per case and never cloned).
struct Item {
    id: u64,
    w: Vec<f64>,
    updates: u32,
}

impl Input for Item {
    fn weights(&self) -> &[f64] {
        self.w.as_slice()
    }
}

#[derive(Default)]
struct LedgerInner {
    given: u64,
    cap_dropped: u64,
    drained: u64,
    created: u64,
    destroyed: u64,
    destroyed_nonempty: u64,
    destroyed_items: u64,
    destroyed_undrained_empty: u64,
    resize_calls: u64,
    factory_sizes: Vec<usize>,
}

/// What all storages of one case were given / dropped / how they ended.
struct Ledger {
    armed: AtomicBool,
    inner: Mutex<LedgerInner>,
}

impl Ledger {
    fn new() -> Self {
        Self { armed: AtomicBool::new(true), inner: Mutex::new(LedgerInner::default()) }
    }

    fn with<T>(&self, f: impl FnOnce(&mut LedgerInner) -> T) -> T {
        let mut guard = match self.inner.lock() {
            Ok(g) => g,
            Err(p) => p.into_inner(),
        };
        f(&mut guard)
    }
}

/// Capacity-aware storage: keeps at most `cap` items, counts what it gets and what it drops.
struct CapStorage {
    cap: usize,
    drop_oldest: bool,
    items: Vec<Item>,
    /// true when the last mutating call was a full drain (nothing added since)
    drained_clean: bool,
    ledger: Arc<Ledger>,
}

impl Storage for CapStorage {
    type Item = Item;

    fn add(&mut self, input: Self::Item) {
        self.drained_clean = false;
        self.items.push(input);
        let mut dropped = 0;
        while self.items.len() > self.cap {
            if self.drop_oldest {
                self.items.remove(0);
            } else {
                self.items.pop();
            }
            dropped += 1;
        }
        self.ledger.with(|l| {
            l.given += 1;
            l.cap_dropped += dropped;
        });
    }

    fn iter(&self) -> Box<dyn Iterator<Item = &'_ Self::Item> + '_> {
        Box::new(self.items.iter())
    }

    fn drain<R>(&mut self, range: R) -> Vec<Self::Item>
    where
        R: RangeBounds<usize>,
    {
        let out: Vec<Item> = self.items.drain(range).collect();
        self.drained_clean = self.items.is_empty();
        self.ledger.with(|l| l.drained += out.len() as u64);
        out
    }

    fn resize(&mut self, size: usize) {
        self.cap = size;
        let mut dropped = 0;
        while self.items.len() > self.cap {
            self.items.pop();
            dropped += 1;
        }
        self.ledger.with(|l| {
            l.resize_calls += 1;
            l.cap_dropped += dropped;
        });
    }

    fn size(&self) -> usize {
        self.items.len()
    }
}

impl Display for CapStorage {
    fn fmt(&self, f: &mut Formatter<'_>) -> std::fmt::Result {
        write!(f, "{}", self.items.len())
    }
}

impl Drop for CapStorage {
    fn drop(&mut self) {
        if !self.ledger.armed.load(AtomicOrdering::Relaxed) {
            return;
        }
        let n = self.items.len() as u64;
        let clean = self.drained_clean;
        self.ledger.with(|l| {
            l.destroyed += 1;
            if n > 0 {
                l.destroyed_nonempty += 1;
                l.destroyed_items += n;
            } else if !clean {
                l.destroyed_undrained_empty += 1;
            }
        });
    }
}

struct CapFactory {
    cap: usize,
    drop_oldest: bool,
    ledger: Arc<Ledger>,
}

impl StorageFactory<(), Item, CapStorage> for CapFactory {
    fn eval(&self, _: &()) -> CapStorage {
        self.ledger.with(|l| l.created += 1);
        CapStorage { cap: self.cap, drop_oldest: self.drop_oldest, items: vec![], drained_clean: false, ledger: self.ledger.clone() }
    }
}

type Net = Network<(), Item, CapStorage, CapFactory>;

// ---------------------------------------------------------------------------------------------
// harness-side Random (the trait is public API; `get_rng` can only hand out the crate's own generator,
// the repeatable flavour of which is a thread-local seeded with 0 – every case runs on a fresh thread)

struct CaseRandom {
    rng: Mutex<Rng>,
    /// probability with which `uniform_real` returns exactly its lower bound (allowed: the interval is [min, max))
    edge: f64,
}

impl CaseRandom {
    fn with<T>(&self, f: impl FnOnce(&mut Rng) -> T) -> T {
        let mut guard = match self.rng.lock() {
            Ok(g) => g,
            Err(p) => p.into_inner(),
        };
        f(&mut guard)
    }
}

impl Random for CaseRandom {
    fn uniform_int(&self, min: i32, max: i32) -> i32 {
        if min >= max {
            return min;
        }
        self.with(|r| r.range_i64(min as i64, max as i64) as i32)
    }

    fn uniform_real(&self, min: f64, max: f64) -> f64 {
        if (min - max).abs() < f64::EPSILON || min > max {
            return min;
        }
        let edge = self.edge;
        self.with(|r| {
            if edge > 0. && r.chance(edge) {
                return min;
            }
            let v = min + (max - min) * r.f64();
            if v < max { v } else { min }
        })
    }

    fn is_head_not_tails(&self) -> bool {
        self.with(|r| r.chance(0.5))
    }

    fn is_hit(&self, probability: f64) -> bool {
        let p = probability.clamp(0., 1.);
        self.with(|r| r.f64() < p)
    }

    fn weighted(&self, weights: &[usize]) -> usize {
        let w: Vec<f64> = weights.iter().map(|w| *w as f64).collect();
        self.with(|r| r.weighted(&w))
    }

    fn get_rng(&self) -> RandomGen {
        RandomGen::new_repeatable()
    }
}

fn make_random(rng: &mut Rng) -> (Arc<dyn Random>, &'static str) {
    // burn a seed dependent number of values of the thread-local repeatable generator: varies the shuffles
    {
        use rand::RngCore;
        let mut g = RandomGen::new_repeatable();
        for _ in 0..rng.below(257) {
            g.next_u64();
        }
    }
    match rng.below(10) {
        0..=2 => (Arc::new(DefaultRandom::new_repeatable()), "default-repeatable"),
        3 => (Arc::new(CaseRandom { rng: Mutex::new(rng.fork()), edge: 0.3 }), "harness-edge-biased"),
        _ => (Arc::new(CaseRandom { rng: Mutex::new(rng.fork()), edge: 0. }), "harness"),
    }
}

// ---------------------------------------------------------------------------------------------
// input streams

const CLASSES: [&str; 11] = [
    "clustered",
    "duplicated",
    "constant",
    "outliers",
    "tiny-range",
    "subnormal",
    "drift",
    "uniform",
    "mixed-degenerate",
    "growing",
    "lattice",
];

struct Stream {
    class: &'static str,
    dim: usize,
    scale: f64,
    sigma: f64,
    centers: Vec<Vec<f64>>,
    pool: Vec<Vec<f64>>,
    base: Vec<f64>,
    step: Vec<f64>,
    growth: f64,
    outlier_p: f64,
    constant_dims: Vec<bool>,
    counter: u64,
}

fn gaussish(rng: &mut Rng) -> f64 {
    (rng.f64() + rng.f64() + rng.f64() + rng.f64() - 2.) * 1.7
}

impl Stream {
    fn new(class: &'static str, dim: usize, rng: &mut Rng) -> Self {
        let scale = *rng.pick(&[1e-3, 1., 1., 100., 1e4, 1e6]);
        let sigma = scale * *rng.pick(&[1e-4, 1e-2, 0.05, 0.2]);
        let k = rng.range_usize(2, 6);
        let centers: Vec<Vec<f64>> = (0..k).map(|_| (0..dim).map(|_| rng.range_f64(-scale, scale)).collect()).collect();
        let mut s = Stream {
            class,
            dim,
            scale,
            sigma,
            centers,
            pool: vec![],
            base: vec![0.; dim],
            step: vec![0.; dim],
            growth: rng.range_f64(1.01, 1.12),
            outlier_p: rng.range_f64(0.01, 0.12),
            constant_dims: vec![false; dim],
            counter: 0,
        };
        match class {
            "duplicated" => {
                let m = rng.range_usize(1, 8);
                s.pool = (0..m).map(|_| s.clustered(rng)).collect();
            }
            "constant" => {
                s.base = match rng.below(6) {
                    0 => vec![0.; dim],
                    1 => vec![1.; dim],
                    2 => vec![-1e9; dim],
                    3 => (0..dim).map(|_| rng.range_f64(-scale, scale)).collect(),
                    4 => (0..dim).map(|j| if j % 2 == 0 { 0. } else { 1e12 }).collect(),
                    _ => vec![rng.range_f64(-1e12, 1e12); dim],
                };
            }
            "tiny-range" => {
                s.base = (0..dim).map(|_| rng.range_f64(0.5, 2.) * *rng.pick(&[1e-6, 1., 1., 1e6])).collect();
                s.constant_dims = (0..dim).map(|_| rng.chance(0.3)).collect();
            }
            "subnormal" => {
                // k * 5e-324 with small k: such a value times U(0.99, 1) rounds back to itself
                s.base = (0..dim).map(|_| f64::from_bits(rng.range_i64(1, 40) as u64)).collect();
                s.constant_dims = (0..dim).map(|_| rng.chance(0.7)).collect();
                if rng.chance(0.5) {
                    s.constant_dims = vec![true; dim];
                }
            }
            "drift" => {
                s.base = (0..dim).map(|_| rng.range_f64(-scale, scale)).collect();
                s.step = (0..dim)
                    .map(|_| {
                        let sign = if rng.chance(0.5) { 1. } else { -1. };
                        sign * scale * *rng.pick(&[1e-3, 1e-2, 0.1, 1.])
                    })
                    .collect();
            }
            "mixed-degenerate" => {
                s.constant_dims = (0..dim).map(|_| rng.chance(0.5)).collect();
                if !s.constant_dims.iter().any(|c| *c) {
                    s.constant_dims[0] = true;
                }
                s.base = (0..dim).map(|_| *rng.pick(&[0., 0., 1., -3.5, 1e9])).collect();
            }
            "growing" => {
                s.base = (0..dim).map(|_| rng.range_f64(-1., 1.)).collect();
            }
            _ => {}
        }
        s
    }

    fn clustered(&self, rng: &mut Rng) -> Vec<f64> {
        let c = &self.centers[rng.usize_below(self.centers.len())];
        c.iter().map(|v| v + gaussish(rng) * self.sigma).collect()
    }

    /// Next vector of the stream; `t` is the generation (non-decreasing). All values finite, |v| <= 1e12.
    fn next(&mut self, rng: &mut Rng, t: usize) -> Vec<f64> {
        self.counter += 1;
        let dim = self.dim;
        let v: Vec<f64> = match self.class {
            "clustered" => self.clustered(rng),
            "duplicated" => self.pool[rng.usize_below(self.pool.len())].clone(),
            "constant" => self.base.clone(),
            "outliers" => {
                let mut v = self.clustered(rng);
                if rng.chance(self.outlier_p) {
                    let all = rng.chance(0.3);
                    let j0 = rng.usize_below(dim);
                    for (j, x) in v.iter_mut().enumerate() {
                        if all || j == j0 {
                            let mag = 10f64.powf(rng.range_f64(6., 12.));
                            *x = if rng.chance(0.5) { mag } else { -mag };
                        }
                    }
                }
                v
            }
            "tiny-range" => (0..dim)
                .map(|j| {
                    if self.constant_dims[j] {
                        self.base[j]
                    } else {
                        f64::from_bits(self.base[j].to_bits() + rng.below(4))
                    }
                })
                .collect(),
            "subnormal" => (0..dim)
                .map(|j| {
                    if self.constant_dims[j] {
                        self.base[j]
                    } else {
                        f64::from_bits(self.base[j].to_bits() + rng.below(3))
                    }
                })
                .collect(),
            "drift" => (0..dim)
                .map(|j| {
                    // strictly monotone per dimension in the running counter
                    self.base[j] + self.step[j] * (self.counter as f64 + 0.5 * rng.f64())
                })
                .collect(),
            "uniform" => (0..dim).map(|_| rng.range_f64(-self.scale, self.scale)).collect(),
            "mixed-degenerate" => {
                let c = self.clustered(rng);
                (0..dim).map(|j| if self.constant_dims[j] { self.base[j] } else { c[j] }).collect()
            }
            "growing" => {
                let mag = self.growth.powf(t as f64).min(1e12);
                (0..dim).map(|j| (self.base[j] + 0.1 * gaussish(rng)) * mag).collect()
            }
            "lattice" => (0..dim).map(|_| rng.range_i64(-3, 3) as f64 * self.scale).collect(),
            _ => unreachable!(),
        };
        v.into_iter().map(|x| if x.is_finite() { x.clamp(-1e12, 1e12) } else { 0. }).collect()
    }
}

// ---------------------------------------------------------------------------------------------
// oracle

struct Viol {
    rule: String,
    what: String,
}

fn viol(out: &mut Vec<Viol>, rule: &str, what: String) {
    if !out.iter().any(|v| v.rule == rule) {
        out.push(Viol { rule: rule.to_string(), what });
    }
}

fn finite_nonneg(out: &mut Vec<Viol>, name: &str, v: f64) {
    if !v.is_finite() {
        viol(out, &format!("{name}-nonfinite"), format!("{name} = {v}"));
    } else if v < 0. {
        viol(out, &format!("{name}-negative"), format!("{name} = {v}"));
    }
}

/// Well-formedness of what `NetworkState` exposes (used for both levels).
/// Returns (number of nodes, individuals held according to the dumps).
fn wf_state(
    state: &NetworkState,
    dim: usize,
    node_size: usize,
    count_dump: &dyn Fn(&str) -> Option<usize>,
    out: &mut Vec<Viol>,
) -> (usize, u64) {
    let mut seen = HashSet::new();
    let mut held = 0u64;
    for node in state.nodes.iter() {
        if !seen.insert(node.coordinate) {
            viol(out, "state-coordinate-duplicate", format!("coordinate {:?} is reported for two nodes", node.coordinate));
        }
        if node.weights.len() != dim {
            viol(out, "state-weights-dimension", format!("node {:?} has {} weights, input dimension {dim}", node.coordinate, node.weights.len()));
        }
        if let Some(w) = node.weights.iter().find(|w| !w.is_finite()) {
            viol(out, "state-weights-nonfinite", format!("node {:?} has weight {w}", node.coordinate));
        }
        finite_nonneg(out, "state-node-mse", node.mse);
        finite_nonneg(out, "state-node-unified-distance", node.unified_distance);
        match count_dump(&node.dump) {
            Some(n) => {
                held += n as u64;
                if n > node_size {
                    viol(out, "capacity-exceeded", format!("node {:?} holds {n} individuals, node_size {node_size} (dump {})", node.coordinate, vverif::clip(&node.dump, 120)));
                }
            }
            None => viol(out, "state-dump-unreadable", format!("dump {:?}", vverif::clip(&node.dump, 80))),
        }
    }
    finite_nonneg(out, "state-mse", state.mse);
    if !state.nodes.is_empty() && state.shape.2 != dim {
        viol(out, "state-dimension", format!("state reports dimension {}, input dimension {dim}", state.shape.2));
    }
    (state.nodes.len(), held)
}

/// Full well-formedness of a live network through its public API.
fn wf_network(net: &Net, dim: usize, node_size: usize, offered: u64, rng: &mut Rng, deep: bool, out: &mut Vec<Viol>) -> bool {
    let mut error_inf = false;
    let size = net.size();

    // keys
    let coords: Vec<Coordinate> = net.get_coordinates().collect();
    let keys: HashSet<(i32, i32)> = coords.iter().map(|c| (c.0, c.1)).collect();
    if coords.len() != size || keys.len() != size {
        viol(out, "coordinate-duplicate", format!("size() = {size}, get_coordinates() yields {} items, {} distinct", coords.len(), keys.len()));
    }

    // identity
    let mut node_coords = HashSet::new();
    let mut n_iter = 0usize;
    let mut ids = HashSet::new();
    let mut held = 0u64;
    for (key, node) in net.iter() {
        n_iter += 1;
        if *key != node.coordinate {
            viol(out, "key-coordinate-mismatch", format!("map key {key} holds a node whose coordinate is {}", node.coordinate));
        }
        if !node_coords.insert((node.coordinate.0, node.coordinate.1)) {
            viol(out, "node-coordinate-duplicate", format!("two nodes carry coordinate {}", node.coordinate));
        }
        match net.find(key) {
            None => viol(out, "find-none-for-present", format!("find({key}) = None although iter() yields that key")),
            Some(found) => {
                if found.coordinate != *key || !std::ptr::eq(found, node) {
                    viol(out, "find-mismatch", format!("find({key}) returns the node with coordinate {}", found.coordinate));
                }
            }
        }
        if node.weights.len() != dim {
            viol(out, "weights-dimension", format!("node {key} has {} weights, input dimension {dim}", node.weights.len()));
        }
        if let Some(w) = node.weights.iter().find(|w| !w.is_finite()) {
            viol(out, "weights-nonfinite", format!("node {key} has weight {w}"));
        }
        if node.error.is_nan() {
            viol(out, "node-error-nan", format!("node {key} has error NaN"));
        } else if node.error < 0. {
            viol(out, "node-error-negative", format!("node {key} has error {}", node.error));
        } else if node.error.is_infinite() {
            error_inf = true;
        }
        let stored = node.storage.size();
        if stored > node_size {
            viol(out, "capacity-exceeded", format!("node {key} holds {stored} individuals, node_size {node_size} (storage capacity as told by the network: {})", node.storage.cap));
        }
        for item in node.storage.iter() {
            held += 1;
            if !ids.insert(item.id) {
                viol(out, "individual-duplicated", format!("individual #{} is held twice", item.id));
            }
            if item.id >= offered {
                viol(out, "individual-unknown", format!("individual #{} was never offered ({offered} offered)", item.id));
            }
            if item.w.len() != dim {
                viol(out, "individual-dimension-changed", format!("individual #{} has {} weights", item.id, item.w.len()));
            }
        }
        if deep {
            finite_nonneg(out, "node-mse", node.mse(net));
            finite_nonneg(out, "node-unified-distance", node.unified_distance(net, 1));
        }
    }
    if n_iter != size {
        viol(out, "iter-size-mismatch", format!("size() = {size}, iter() yields {n_iter}"));
    }
    let n_nodes = net.get_nodes().count();
    if n_nodes != size {
        viol(out, "nodes-size-mismatch", format!("size() = {size}, get_nodes() yields {n_nodes}"));
    }
    for node in net.get_nodes() {
        match net.find(&node.coordinate) {
            Some(found) if std::ptr::eq(found, node) => {}
            Some(found) => viol(out, "find-mismatch", format!("find({}) returns another node (coordinate {})", node.coordinate, found.coordinate)),
            None => viol(out, "find-none-for-present", format!("find({}) = None for a node returned by get_nodes()", node.coordinate)),
        }
    }
    if held > offered {
        viol(out, "held-exceeds-offered", format!("{held} individuals held, {offered} offered"));
    }

    // absent coordinates: outside of the bounding box and holes inside it
    if !keys.is_empty() {
        let (x0, x1) = (keys.iter().map(|k| k.0).min().unwrap(), keys.iter().map(|k| k.0).max().unwrap());
        let (y0, y1) = (keys.iter().map(|k| k.1).min().unwrap(), keys.iter().map(|k| k.1).max().unwrap());
        let r = rng.range_i64(1, 3) as i32;
        let xm = rng.range_i64(x0 as i64, x1 as i64) as i32;
        let ym = rng.range_i64(y0 as i64, y1 as i64) as i32;
        let mut absent = vec![(x0 - r, ym), (x1 + r, ym), (xm, y0 - r), (xm, y1 + r), (x0 - r, y1 + r), (i32::MAX, i32::MIN)];
        for _ in 0..8 {
            let c = (rng.range_i64(x0 as i64, x1 as i64) as i32, rng.range_i64(y0 as i64, y1 as i64) as i32);
            if !keys.contains(&c) {
                absent.push(c);
            }
        }
        for c in absent {
            if let Some(found) = net.find(&Coordinate(c.0, c.1)) {
                viol(out, "find-some-for-absent", format!("find(({},{})) returns a node (coordinate {}) although no such key exists", c.0, c.1, found.coordinate));
            }
        }
    }

    if net.dimension() != dim {
        viol(out, "dimension-mismatch", format!("dimension() = {}, input dimension {dim}", net.dimension()));
    }
    finite_nonneg(out, "mse", net.mse());
    finite_nonneg(out, "max-unified-distance", net.max_unified_distance());

    if deep {
        let state = get_network_state(net);
        let (n, _) = wf_state(&state, dim, node_size, &|d| d.parse::<usize>().ok(), out);
        let state_keys: HashSet<(i32, i32)> = state.nodes.iter().map(|n| n.coordinate).collect();
        if n != size || state_keys != keys {
            viol(out, "state-coordinates-differ", format!("network state lists {n} nodes / {} distinct coordinates, the map has {size} keys", state_keys.len()));
        }
    }
    error_inf
}

fn cfg_json(c: &NetworkConfig) -> Value {
    json!({"node_size": c.node_size, "spread_factor": c.spread_factor, "distribution_factor": c.distribution_factor,
           "learning_rate": c.learning_rate, "rebalance_memory": c.rebalance_memory, "has_initial_error": c.has_initial_error})
}

struct CaseLog {
    recent: Vec<String>,
}

impl CaseLog {
    fn push(&mut self, s: String) {
        if self.recent.len() >= 24 {
            self.recent.remove(0);
        }
        self.recent.push(s);
    }
}

fn size_bucket(n: usize) -> &'static str {
    match n {
        0..=3 => "<4",
        4 => "4",
        5..=8 => "5-8",
        9..=16 => "9-16",
        17..=32 => "17-32",
        33..=64 => "33-64",
        65..=128 => "65-128",
        129..=256 => "129-256",
        257..=512 => "257-512",
        _ => ">512",
    }
}

// ---------------------------------------------------------------------------------------------
// (a) Network level

fn network_case(run: &Run, case_seed: u64, thorough: bool) -> u64 {
    let mut rng = Rng::new(case_seed ^ 0xC19A);
    let (random, random_kind) = make_random(&mut rng);
    let dim = rng.range_usize(1, 6);
    let class = *rng.pick(&CLASSES);
    let stream = Stream::new(class, dim, &mut rng);
    let cfg = NetworkConfig {
        node_size: rng.range_usize(1, 5),
        spread_factor: *rng.pick(&[0.05, 0.25, 0.5, 0.75, 0.75, 0.9, 0.99]),
        distribution_factor: *rng.pick(&[0.05, 0.25, 0.5, 0.75, 0.9, 0.99]),
        learning_rate: *rng.pick(&[0.01, 0.1, 0.3, 0.7, 1.0]),
        rebalance_memory: *rng.pick(&[1usize, 2, 3, 5, 10, 50, 100, 500]),
        has_initial_error: rng.chance(0.5),
    };
    let init_n = if rng.chance(0.3) { 4 } else { rng.range_usize(4, if thorough { 120 } else { 48 }) };
    let gens = if thorough && rng.chance(0.15) { rng.range_usize(400, 1200) } else { rng.range_usize(50, if thorough { 400 } else { 220 }) };
    let max_nodes = if thorough { 1200 } else { 400 };
    let p_smooth = *rng.pick(&[0., 0.01, 0.03, 0.1]);
    let p_compact = *rng.pick(&[0., 0.01, 0.03, 0.1]);
    let p_lr = *rng.pick(&[0., 0.05]);
    let max_batch = *rng.pick(&[1usize, 2, 4, 8, 16]);
    let node_fn_kind = rng.below(8);
    let drop_oldest = rng.chance(0.5);
    let big = rng.chance(0.06);
    let (class, cfg, p_compact, max_batch, gens) = if big {
        let class = *rng.pick(&["uniform", "clustered", "lattice", "outliers", "drift"]);
        let cfg = NetworkConfig { spread_factor: *rng.pick(&[0.9, 0.99]), ..cfg };
        (class, cfg, 0., 16, gens.max(if thorough { 600 } else { 200 }))
    } else {
        (class, cfg, p_compact, max_batch, gens)
    };
    let mut stream = if big { Stream::new(class, dim, &mut rng) } else { stream };

    let ledger = Arc::new(Ledger::new());
    let mut offered = 0u64;
    let mk = |w: Vec<f64>, offered: &mut u64| {
        let it = Item { id: *offered, w, updates: 0 };
        *offered += 1;
        it
    };
    let init: Vec<Item> = (0..init_n).map(|_| mk(stream.next(&mut rng, 0), &mut offered)).collect();
    let first_inputs: Vec<Vec<f64>> = init.iter().take(3).map(|i| i.w.clone()).collect();

    let describe = |t: usize, op: &str, log: &CaseLog, extra: Value| {
        json!({"case_seed": case_seed.to_string(), "kind": "network", "thorough": thorough, "class": class, "dim": dim,
               "config": cfg_json(&cfg), "random": random_kind, "initial_inputs": init_n, "generations": gens,
               "generation": t, "op": op, "recent_ops": log.recent, "first_inputs": first_inputs, "detail": extra})
    };
    let mut log = CaseLog { recent: vec![] };
    let mut violations = 0u64;

    let lg = ledger.clone();
    let built = run.guard(|| {
        Network::new(&(), init, cfg.clone(), random.clone(), move |size| {
            lg.with(|l| l.factory_sizes.push(size));
            CapFactory { cap: size, drop_oldest, ledger: lg.clone() }
        })
    });
    run.observe("network_ops", "new");
    let mut net: Net = match built {
        Err(p) => {
            ledger.armed.store(false, AtomicOrdering::Relaxed);
            run.eval();
            run.violation(
                &format!("C19|network|panic|op=new|{}", p.file()),
                &format!("Network::new panicked on {init_n} {class} inputs of dimension {dim}: {}", vverif::clip(&p.message, 160)),
                describe(0, "new", &log, p.to_json()),
            );
            return 1;
        }
        Ok(Err(err)) => {
            ledger.armed.store(false, AtomicOrdering::Relaxed);
            run.inconclusive(&format!("network-new-error: {}", vverif::clip(&err.to_string(), 60)));
            return 0;
        }
        Ok(Ok(net)) => net,
    };

    let mut max_size = net.size();
    let mut grew = 0u64;
    let mut compact_removed = 0u64;
    let mut compact_noop = 0u64;
    let mut smooth_changed_size = 0u64;
    let mut destroyed_seen = 0u64;
    let mut error_inf_at: Option<usize> = None;

    // one oracle verdict after one operation
    let mut check = |net: &Net, t: usize, op: &str, before: usize, offered: u64, log: &CaseLog, rng: &mut Rng, last_batch: &Value| -> bool {
        run.eval();
        let mut out = vec![];
        let size = net.size();
        let deep = size <= 96 || t % 8 == 0;
        if wf_network(net, dim, cfg.node_size, offered, rng, deep, &mut out) && error_inf_at.is_none() {
            error_inf_at = Some(t);
        }
        if op == "compact" {
            if size > before {
                viol(&mut out, "compact-grew", format!("compact() grew the map from {before} to {size} nodes"));
            }
            if before >= 4 && size < 4 {
                viol(&mut out, "compact-below-four", format!("compact() left {size} nodes (had {before})"));
            }
        }
        let (destroyed, nonempty, items) = ledger.with(|l| (l.destroyed, l.destroyed_nonempty, l.destroyed_items));
        if nonempty > 0 {
            viol(
                &mut out,
                "live-node-destroyed",
                format!("{nonempty} node(s) holding {items} individual(s) vanished from the map without their data being taken out first (two nodes mapped onto one coordinate)"),
            );
        }
        if op != "compact" && destroyed != destroyed_seen {
            viol(&mut out, "node-replaced", format!("{} node(s) were destroyed by {op} (a node was inserted at an occupied coordinate)", destroyed - destroyed_seen));
        }
        destroyed_seen = destroyed;
        let failed = !out.is_empty();
        for v in out {
            run.violation(
                &format!("C19|network|{}|after={op}", v.rule),
                &format!("{} [{class} stream, dim {dim}, generation {t}, {size} nodes]", v.what),
                describe(t, op, log, json!({"rule": v.rule, "size_before": before, "size_after": size, "last_batch": last_batch})),
            );
        }
        failed
    };

    log.push(format!("new({init_n})->{}", net.size()));
    let none = json!(null);
    if check(&net, 0, "new", 0, offered, &log, &mut rng, &none) {
        ledger.armed.store(false, AtomicOrdering::Relaxed);
        return 1;
    }

    let mut ops_done = 1u64;
    'gens: for t in 1..=gens {
        // ---- store_batch
        let n = if rng.chance(0.02) { 0 } else { rng.range_usize(1, max_batch) };
        let mut batch: Vec<Item> = Vec::with_capacity(n);
        let dup_in_batch = rng.chance(0.1);
        for k in 0..n {
            let w = if dup_in_batch && k > 0 { batch[0].w.clone() } else { stream.next(&mut rng, t) };
            batch.push(mk(w, &mut offered));
        }
        let last_batch = json!(batch.iter().map(|i| i.w.clone()).collect::<Vec<_>>());
        let before = net.size();
        let op = if n == 1 { "store_batch(1)" } else if n == 0 { "store_batch(0)" } else { "store_batch" };
        let res = run.guard(|| net.store_batch(&(), batch, t));
        run.observe("network_ops", op);
        ops_done += 1;
        if let Err(p) = res {
            run.eval();
            run.violation(
                &format!("C19|network|panic|op=store_batch|{}", p.file()),
                &format!("store_batch panicked [{class} stream, dim {dim}, generation {t}]: {}", vverif::clip(&p.message, 160)),
                describe(t, op, &log, json!({"panic": p.to_json(), "last_batch": last_batch})),
            );
            violations += 1;
            break 'gens;
        }
        let after = net.size();
        log.push(format!("t{t}:{op}[{n}] {before}->{after}"));
        if after > before {
            grew += 1;
        }
        max_size = max_size.max(after);
        if check(&net, t, "store_batch", before, offered, &log, &mut rng, &last_batch) {
            violations += 1;
            break 'gens;
        }

        // ---- learning rate
        if rng.chance(p_lr) {
            let lr = 0.1 + 0.45 * (1. + (std::f64::consts::PI * rng.f64()).cos());
            net.set_learning_rate(lr);
            run.observe("network_ops", "set_learning_rate");
            if net.get_learning_rate() != lr {
                run.observe("network_notes", "learning-rate-not-stored");
            }
        }

        // ---- smooth
        if rng.chance(p_smooth) {
            let count = rng.range_usize(1, 3);
            let before = net.size();
            let res = run.guard(|| match node_fn_kind {
                0 => net.smooth(&(), count, |i: &mut Item| {
                    for w in i.w.iter_mut() {
                        *w = *w * 1.000001 + 1e-9;
                    }
                }),
                1 | 2 => net.smooth(&(), count, |i: &mut Item| i.updates += 1),
                _ => net.smooth(&(), count, |_| ()),
            });
            run.observe("network_ops", "smooth");
            ops_done += 1;
            if let Err(p) = res {
                run.eval();
                run.violation(
                    &format!("C19|network|panic|op=smooth|{}", p.file()),
                    &format!("smooth panicked [{class} stream, dim {dim}, generation {t}]: {}", vverif::clip(&p.message, 160)),
                    describe(t, "smooth", &log, p.to_json()),
                );
                violations += 1;
                break 'gens;
            }
            let after = net.size();
            log.push(format!("t{t}:smooth({count}) {before}->{after}"));
            if after != before {
                smooth_changed_size += 1;
            }
            if check(&net, t, "smooth", before, offered, &log, &mut rng, &none) {
                violations += 1;
                break 'gens;
            }
        }

        // ---- compact (+ smoothing pass, as the population does)
        if rng.chance(p_compact) || net.size() > max_nodes {
            let before = net.size();
            let res = run.guard(|| net.compact(&()));
            run.observe("network_ops", "compact");
            ops_done += 1;
            if let Err(p) = res {
                run.eval();
                run.violation(
                    &format!("C19|network|panic|op=compact|{}", p.file()),
                    &format!("compact panicked [{class} stream, dim {dim}, generation {t}, {before} nodes]: {}", vverif::clip(&p.message, 160)),
                    describe(t, "compact", &log, p.to_json()),
                );
                violations += 1;
                break 'gens;
            }
            let after = net.size();
            log.push(format!("t{t}:compact {before}->{after}"));
            if after < before {
                compact_removed += 1;
                run.observe("network_compaction_from_size", size_bucket(before));
            } else {
                compact_noop += 1;
            }
            if check(&net, t, "compact", before, offered, &log, &mut rng, &none) {
                violations += 1;
                break 'gens;
            }
            if rng.chance(0.5) {
                let before = net.size();
                let res = run.guard(|| net.smooth(&(), 1, |i: &mut Item| i.updates += 1));
                run.observe("network_ops", "smooth");
                ops_done += 1;
                if let Err(p) = res {
                    run.eval();
                    run.violation(
                        &format!("C19|network|panic|op=smooth|{}", p.file()),
                        &format!("smooth after compact panicked [{class} stream, dim {dim}, generation {t}]: {}", vverif::clip(&p.message, 160)),
                        describe(t, "smooth", &log, p.to_json()),
                    );
                    violations += 1;
                    break 'gens;
                }
                log.push(format!("t{t}:smooth(1) {before}->{}", net.size()));
                if net.size() != before {
                    smooth_changed_size += 1;
                }
                if check(&net, t, "smooth", before, offered, &log, &mut rng, &none) {
                    violations += 1;
                    break 'gens;
                }
            }
            if net.size() > 2 * max_nodes {
                run.observe("network_notes", "case-stopped-map-too-large");
                break 'gens;
            }
        }
    }

    // bookkeeping
    let (given, cap_dropped, drained, created, destroyed, undrained_empty, resize_calls, factory_sizes) = ledger.with(|l| {
        (l.given, l.cap_dropped, l.drained, l.created, l.destroyed, l.destroyed_undrained_empty, l.resize_calls, l.factory_sizes.clone())
    });
    ledger.armed.store(false, AtomicOrdering::Relaxed);
    let held: u64 = net.get_nodes().map(|n| n.storage.size() as u64).sum();
    drop(net);

    run.observe("network_class", class);
    run.observe("network_dim", &dim.to_string());
    run.observe("network_node_size", &cfg.node_size.to_string());
    run.observe("network_max_size", size_bucket(max_size));
    run.observe("network_random", random_kind);
    run.observe_n("network_events", "growth (store_batch enlarged the map)", grew);
    run.observe_n("network_events", "compaction removed nodes", compact_removed);
    run.observe_n("network_events", "compaction left the map as it was", compact_noop);
    run.observe_n("network_events", "smooth changed the map size", smooth_changed_size);
    run.observe_n("network_events", "node destroyed empty without a drain", undrained_empty);
    run.observe_n("storage_ledger", "individuals offered", offered);
    run.observe_n("storage_ledger", "storage.add calls", given);
    run.observe_n("storage_ledger", "dropped by storage capacity", cap_dropped);
    run.observe_n("storage_ledger", "drained by the network", drained);
    run.observe_n("storage_ledger", "held at the end", held);
    run.observe_n("storage_ledger", "storages created", created);
    run.observe_n("storage_ledger", "storages destroyed", destroyed);
    run.observe_n("storage_ledger", "resize calls", resize_calls);
    if let Some(t) = error_inf_at {
        run.observe("network_notes", "cases in which a node's accumulated error (Node::error) reached +inf (not judged)");
        if NODE_ERROR_INF_NOTED.fetch_add(1, AtomicOrdering::Relaxed) == 0 {
            run.note(
                "node_error_inf_example",
                json!({"case_seed": case_seed.to_string(), "class": class, "dim": dim, "config": cfg_json(&cfg), "first_seen_at_generation": t,
                       "generations": gens, "note": "Node::error is multiplied by (1 + distribution_factor/distance) on every error distribution of a neighbour and is only reset by a smoothing pass"}),
            );
        }
    }
    if factory_sizes.len() >= 3 && factory_sizes[factory_sizes.len() - 1] == cfg.node_size {
        run.observe("network_notes", "factory asked for node_size last");
    }
    if grew > 0 || compact_removed > 0 {
        run.nontrivial(&format!(
            "network|{class}|d{dim}|ns{}|sf{}|df{}|lr{}|rm{}|grew{}|compacted{}|max{}",
            cfg.node_size,
            cfg.spread_factor,
            cfg.distribution_factor,
            cfg.learning_rate,
            cfg.rebalance_memory,
            grew > 0,
            compact_removed > 0,
            size_bucket(max_size)
        ));
    }
    if grew > 0 && compact_removed > 0 && max_size >= 17 && NETWORK_SAMPLES.fetch_add(1, AtomicOrdering::Relaxed) < 2 {
        run.sample(json!({"kind": "network", "case_seed": case_seed.to_string(), "class": class, "dim": dim, "config": cfg_json(&cfg),
            "initial_inputs": init_n, "first_inputs": first_inputs, "generations": gens, "operations_checked": ops_done,
            "max_nodes": max_size, "growth_events": grew, "compactions_removing_nodes": compact_removed,
            "offered": offered, "held_at_end": held, "dropped_by_capacity": cap_dropped,
            "last_ops": log.recent.iter().rev().take(6).rev().collect::<Vec<_>>()}));
    }
    violations
}

// ---------------------------------------------------------------------------------------------
// (b) Rosomaxa population level

type Pop = Rosomaxa<VectorRosomaxaContext, VectorObjective, VectorSolution>;

fn phase_rank(p: &SelectionPhase) -> (u8, &'static str) {
    match p {
        SelectionPhase::Initial => (0, "Initial"),
        SelectionPhase::Exploration => (1, "Exploration"),
        SelectionPhase::Exploitation => (2, "Exploitation"),
    }
}

/// `[[f],[f],]` -> number of individuals
fn count_elitism_dump(d: &str) -> Option<usize> {
    if !(d.starts_with('[') && d.ends_with(']')) {
        return None;
    }
    Some(d.matches("],").count())
}

fn population_case(run: &Run, case_seed: u64, thorough: bool) -> u64 {
    let mut rng = Rng::new(case_seed ^ 0xC19B);
    let (random, random_kind) = make_random(&mut rng);
    let dim = rng.range_usize(1, 6);
    let class = *rng.pick(&CLASSES);
    let mut stream = Stream::new(class, dim, &mut rng);
    let initial_size = if rng.chance(0.25) { 4 } else { rng.range_usize(4, 24) };
    let selection_size = rng.range_usize(2, 12);
    let elite_size = rng.range_usize(1, 5);
    let node_size = rng.range_usize(1, 5);
    let spread_factor = *rng.pick(&[0.25, 0.5, 0.75, 0.75, 0.9, 0.99]);
    let distribution_factor = *rng.pick(&[0.1, 0.25, 0.5, 0.75, 0.9]);
    let rebalance_memory = *rng.pick(&[1usize, 2, 3, 5, 8, 13, 30, 200]);
    let exploration_ratio = *rng.pick(&[0.3, 0.6, 0.9, 0.9, 0.95, 1.0]);
    let gens = if thorough && rng.chance(0.15) { rng.range_usize(400, 1000) } else { rng.range_usize(50, if thorough { 400 } else { 200 }) };
    let fitness_kind = *rng.pick(&["l1-norm", "random", "improving", "constant", "discrete"]);
    let estimate_kind = *rng.pick(&["ramp", "ramp", "ramp-to-half", "noisy", "noisy", "jump", "late-start", "sawtooth"]);
    let speed_kind = *rng.pick(&["unknown", "moderate", "slow", "switching", "switching"]);
    let slow_ratio = rng.range_f64(0.1, 1.);
    let first_generation = rng.below(2) as usize;

    let cfg_json = json!({"initial_size": initial_size, "selection_size": selection_size, "elite_size": elite_size, "node_size": node_size,
        "spread_factor": spread_factor, "distribution_factor": distribution_factor, "rebalance_memory": rebalance_memory,
        "exploration_ratio": exploration_ratio});
    let describe = |g: usize, op: &str, log: &CaseLog, extra: Value| {
        json!({"case_seed": case_seed.to_string(), "kind": "population", "thorough": thorough, "class": class, "dim": dim,
               "config": cfg_json, "random": random_kind, "fitness": fitness_kind, "termination_estimate": estimate_kind,
               "speed": speed_kind, "generations": gens, "generation": g, "op": op, "recent_ops": log.recent, "detail": extra})
    };
    let mut log = CaseLog { recent: vec![] };

    let environment = Arc::new(Environment::new(random.clone(), None, Parallelism::default(), Arc::new(|_: &str| {}), false));
    let objective = Arc::new(VectorObjective::new(Arc::new(|d: &[f64]| d.iter().map(|v| v.abs()).sum()), Arc::new(|d: &[f64]| d.to_vec())));
    let config = RosomaxaConfig {
        initial_size,
        selection_size,
        elite_size,
        node_size,
        spread_factor,
        distribution_factor,
        rebalance_memory,
        exploration_ratio,
    };
    let mut pop: Pop = match run.guard(|| Rosomaxa::new(VectorRosomaxaContext, objective, environment, config)) {
        Ok(Ok(p)) => p,
        Ok(Err(e)) => {
            run.inconclusive(&format!("rosomaxa-new-error: {}", vverif::clip(&e.to_string(), 60)));
            return 0;
        }
        Err(p) => {
            run.eval();
            run.violation(
                &format!("C19|population|panic|op=new|{}", p.file()),
                &format!("Rosomaxa::new panicked: {}", vverif::clip(&p.message, 160)),
                describe(0, "new", &log, p.to_json()),
            );
            return 1;
        }
    };

    let mut offered = 0u64;
    let rank = std::cell::Cell::new(0u8);
    let mut phases_seen: Vec<&'static str> = vec![];
    let mut nodes_prev: Option<usize> = None;
    let mut max_nodes = 0usize;
    let mut grew = 0u64;
    let mut compacted = 0u64;
    let mut violations = 0u64;
    let mut checks = 0u64;
    let mut max_elite = 0usize;

    let mut check = |pop: &Pop, g: usize, op: &str, offered: u64, log: &CaseLog| -> bool {
        run.eval();
        checks += 1;
        let mut out = vec![];
        let probe = run.guard(|| {
            let phase = pop.selection_phase();
            let size = pop.size();
            let ranked = pop.ranked().count();
            let state = NetworkState::try_from(pop);
            (phase, size, ranked, state)
        });
        let (phase, size, ranked, state) = match probe {
            Ok(v) => v,
            Err(p) => {
                run.violation(
                    &format!("C19|population|panic|op=inspect|{}", p.file()),
                    &format!("inspecting the population after {op} panicked: {}", vverif::clip(&p.message, 160)),
                    describe(g, op, log, p.to_json()),
                );
                return true;
            }
        };
        let (r, name) = phase_rank(&phase);
        if r < rank.get() {
            let from = ["Initial", "Exploration", "Exploitation"][rank.get() as usize];
            viol(&mut out, &format!("phase-regressed|from={from}|to={name}"), format!("selection_phase() went back from {from} to {name}"));
        }
        rank.set(rank.get().max(r));
        if !phases_seen.contains(&name) {
            phases_seen.push(name);
        }
        max_elite = max_elite.max(size);
        if size > elite_size || ranked > elite_size {
            viol(&mut out, "elite-exceeds-elite_size", format!("size() = {size}, ranked() yields {ranked}, elite_size = {elite_size}"));
        }
        let mut nodes_now = None;
        match state {
            Ok(state) => {
                if r != 1 {
                    run.observe("population_notes", "network state available outside Exploration");
                }
                let (n, held) = wf_state(&state, dim, node_size, &count_elitism_dump, &mut out);
                nodes_now = Some(n);
                max_nodes = max_nodes.max(n);
                if held > offered {
                    viol(&mut out, "held-exceeds-offered", format!("node populations hold {held} individuals, {offered} were offered"));
                }
                if let Some(prev) = nodes_prev {
                    if op == "on_generation" {
                        if n > prev {
                            viol(&mut out, "map-grew", format!("on_generation (smoothing/compaction only) grew the map from {prev} to {n} nodes"));
                        }
                        if n < prev {
                            compacted += 1;
                            run.observe("population_compaction_from_size", size_bucket(prev));
                            if prev >= 4 && n < 4 {
                                viol(&mut out, "compact-below-four", format!("compaction in on_generation left {n} nodes (had {prev})"));
                            }
                        }
                    } else if n > prev {
                        grew += 1;
                    }
                }
            }
            Err(_) => {
                if r == 1 {
                    viol(&mut out, "state-unavailable", "selection_phase() is Exploration but NetworkState::try_from fails".to_string());
                }
            }
        }
        nodes_prev = nodes_now;
        let failed = !out.is_empty();
        for v in out {
            run.violation(
                &format!("C19|population|{}|after={op}", v.rule),
                &format!("{} [{class} weights, dim {dim}, generation {g}, phase {name}]", v.what),
                describe(g, op, log, json!({"rule": v.rule, "elite": size, "nodes": nodes_now, "offered": offered})),
            );
        }
        failed
    };

    let mut best = 1000.;
    'gens: for g in 0..gens {
        // ---- offspring
        let k = if rng.chance(0.05) { 0 } else { rng.range_usize(1, selection_size) };
        let mut individuals = Vec::with_capacity(k);
        let dup = rng.chance(0.1);
        let mut first: Option<Vec<f64>> = None;
        for _ in 0..k {
            let w = match (&first, dup) {
                (Some(f), true) => f.clone(),
                _ => stream.next(&mut rng, g),
            };
            if first.is_none() {
                first = Some(w.clone());
            }
            let fitness = match fitness_kind {
                "l1-norm" => w.iter().map(|v| v.abs()).sum::<f64>(),
                "random" => rng.range_f64(0., 1000.),
                "improving" => {
                    if rng.chance(0.2) {
                        best *= rng.range_f64(0.9, 1.);
                    }
                    best * rng.range_f64(1., 1.5)
                }
                "constant" => 1.,
                _ => rng.range_i64(0, 5) as f64,
            };
            individuals.push(VectorSolution::new(w.clone(), fitness, w));
        }
        offered += k as u64;
        let use_add = rng.chance(0.2);
        let op = if use_add { "add" } else { "add_all" };
        let res = run.guard(|| {
            if use_add {
                for i in individuals {
                    pop.add(i);
                }
            } else {
                pop.add_all(individuals);
            }
        });
        run.observe("population_ops", op);
        if let Err(p) = res {
            run.eval();
            run.violation(
                &format!("C19|population|panic|op={op}|{}", p.file()),
                &format!("{op} panicked [{class} weights, dim {dim}, generation {g}]: {}", vverif::clip(&p.message, 160)),
                describe(g, op, &log, p.to_json()),
            );
            violations += 1;
            break 'gens;
        }
        log.push(format!("g{g}:{op}[{k}]"));
        if check(&pop, g, op, offered, &log) {
            violations += 1;
            break 'gens;
        }

        // ---- selection is exercised (panics only)
        if rng.chance(0.3) {
            let res = run.guard(|| (pop.select().count(), pop.all().count()));
            run.observe("population_ops", "select+all");
            match res {
                Err(p) => {
                    run.eval();
                    run.violation(
                        &format!("C19|population|panic|op=select|{}", p.file()),
                        &format!("select/all panicked [generation {g}]: {}", vverif::clip(&p.message, 160)),
                        describe(g, "select", &log, p.to_json()),
                    );
                    violations += 1;
                    break 'gens;
                }
                Ok((selected, _)) => {
                    if rank.get() > 0 && selected > selection_size {
                        run.observe("population_notes", "select() yields more than selection_size");
                    }
                }
            }
        }

        // ---- generation tick
        let x = (g + 1) as f64 / gens as f64;
        let estimate: f64 = match estimate_kind {
            "ramp" => x,
            "ramp-to-half" => 0.5 * x,
            "noisy" => x + rng.range_f64(-0.35, 0.35),
            "jump" => {
                if x < 0.6 {
                    0.
                } else {
                    1.
                }
            }
            "late-start" => 0.9 + 0.1 * x,
            _ => (3. * x) % 1.,
        };
        let estimate = estimate.clamp(0., 1.);
        let speed = match (speed_kind, rng.below(3)) {
            ("unknown", _) | ("switching", 0) => HeuristicSpeed::Unknown,
            ("moderate", _) | ("switching", 1) => HeuristicSpeed::Moderate { average: 100., median: Some(10) },
            _ => HeuristicSpeed::Slow { ratio: if speed_kind == "slow" { slow_ratio } else { rng.range_f64(0.05, 1.) }, average: 0.5, median: Some(2000) },
        };
        let stats = HeuristicStatistics {
            generation: g + first_generation,
            time: Timer::start(),
            speed,
            improvement_all_ratio: rng.f64(),
            improvement_1000_ratio: rng.f64(),
            termination_estimate: estimate,
        };
        let res = run.guard(|| pop.on_generation(&stats));
        run.observe("population_ops", "on_generation");
        if let Err(p) = res {
            run.eval();
            run.violation(
                &format!("C19|population|panic|op=on_generation|{}", p.file()),
                &format!("on_generation panicked [{class} weights, dim {dim}, generation {g}, estimate {estimate}]: {}", vverif::clip(&p.message, 160)),
                describe(g, "on_generation", &log, p.to_json()),
            );
            violations += 1;
            break 'gens;
        }
        log.push(format!("g{g}:on_generation(est={estimate:.3})"));
        if check(&pop, g, "on_generation", offered, &log) {
            violations += 1;
            break 'gens;
        }
    }
    drop(check);

    for p in phases_seen.iter() {
        run.observe("population_phases", p);
    }
    run.observe("population_phase_path", &phases_seen.join(">"));
    run.observe("population_class", class);
    run.observe("population_max_nodes", size_bucket(max_nodes));
    run.observe("population_max_elite", &max_elite.to_string());
    run.observe("population_estimate", estimate_kind);
    run.observe_n("population_events", "growth (add enlarged the map)", grew);
    run.observe_n("population_events", "compaction removed nodes", compacted);
    if phases_seen.contains(&"Exploration") {
        run.nontrivial(&format!(
            "population|{class}|d{dim}|is{initial_size}|ss{selection_size}|es{elite_size}|ns{node_size}|sf{spread_factor}|df{distribution_factor}|rm{rebalance_memory}|er{exploration_ratio}|{estimate_kind}|{speed_kind}|grew{}|compacted{}",
            grew > 0,
            compacted > 0
        ));
    }
    if phases_seen.len() == 3 && compacted > 0 && grew > 0 && POPULATION_SAMPLES.fetch_add(1, AtomicOrdering::Relaxed) < 2 {
        run.sample(json!({"kind": "population", "case_seed": case_seed.to_string(), "class": class, "dim": dim, "config": cfg_json,
            "fitness": fitness_kind, "termination_estimate": estimate_kind, "speed": speed_kind, "generations": gens,
            "operations_checked": checks, "phases": phases_seen, "max_nodes": max_nodes, "max_elite": max_elite,
            "growth_events": grew, "compactions_removing_nodes": compacted, "offered": offered,
            "last_ops": log.recent.iter().rev().take(6).rev().collect::<Vec<_>>()}));
    }
    violations
}

// ---------------------------------------------------------------------------------------------

/// Every case runs on the single worker of a fresh rayon pool: the crate's thread-local repeatable generator
/// starts from its seed, and the crate's `par_iter` calls stay on that thread.
fn run_case(run: &Run, case_seed: u64, thorough: bool) -> u64 {
    let threads = if case_seed % 11 == 0 { 3 } else { 1 };
    let pool = match rayon::ThreadPoolBuilder::new().num_threads(threads).build() {
        Ok(p) => p,
        Err(_) => {
            run.inconclusive("cannot build thread pool");
            return 0;
        }
    };
    let outcome = run.guard(|| {
        pool.install(|| if case_seed % 5 < 3 { network_case(run, case_seed, thorough) } else { population_case(run, case_seed, thorough) })
    });
    match outcome {
        Ok(v) => v,
        Err(p) => {
            // a panic outside of the guarded calls is a harness failure, never a verdict
            run.inconclusive(&format!("harness panic at {}: {}", p.location, vverif::clip(&p.message, 80)));
            0
        }
    }
}

fn replay(run: &Run, path: &std::path::Path) {
    let doc: Value = match std::fs::read_to_string(path).ok().and_then(|t| serde_json::from_str(&t).ok()) {
        Some(d) => d,
        None => {
            println!("INCONCLUSIVE property=C19 cannot read artefact {}", path.display());
            std::process::exit(2);
        }
    };
    let art = &doc["artefact"];
    let case_seed: u64 = match art["case_seed"].as_str().and_then(|s| s.parse().ok()) {
        Some(s) => s,
        None => {
            println!("INCONCLUSIVE property=C19 artefact has no case_seed");
            std::process::exit(2);
        }
    };
    let thorough = art["thorough"].as_bool().unwrap_or(false);
    // Network::new groups its initial nodes in a std HashMap (RandomState): the order in which initial nodes are
    // created is not reproducible, so the case is re-run a few times.
    let mut reproduced = 0;
    for attempt in 0..20 {
        if run_case(run, case_seed, thorough) > 0 {
            reproduced += 1;
            println!("replay: case {case_seed} violated again (attempt {})", attempt + 1);
            break;
        }
    }
    if reproduced == 0 {
        println!("replay: case {case_seed} did not violate in 20 attempts (expected signature {})", doc["signature"]);
    }
}

/// Weights of real routing solutions (`InsertionContext::on_init`, vrp-core `metrics.rs`): 15 finite numbers whatever the
/// solution looks like - no tour at all, tours without any load (problems whose jobs have no demand), ruined tours.
fn vrp_weights_case(run: &Run, case_seed: u64) {
    use vrp_core::construction::heuristics::InsertionContext;
    use vrp_core::models::common::Footprint;
    use vrp_core::rosomaxa::algorithms::gsom::Input as _;
    use vrp_core::rosomaxa::population::RosomaxaSolution as _;
    use vrp_core::solver::search::{RandomJobRemoval, Recreate, RecreateWithCheapest, RemovalLimits, Ruin};
    use vrp_core::solver::{GreedyPopulation, RefinementContext};
    use vverif::pragen::{GenCfg, generate};
    use vverif::solverun::{ReadOutcome, read_problem};

    let mut rng = Rng::new(case_seed);
    let mut cfg = GenCfg::default();
    cfg.min_jobs = 4;
    cfg.max_jobs = 16;
    let mut gp = generate(&mut rng, &cfg);
    let without_demand = rng.chance(0.5);
    if without_demand {
        // every task becomes a service task without demand: no tour ever carries a load
        for job in gp.problem["plan"]["jobs"].as_array_mut().into_iter().flatten() {
            let mut services: Vec<Value> = Vec::new();
            for key in ["pickups", "deliveries", "replacements", "services"] {
                if let Some(tasks) = job.as_object_mut().and_then(|o| o.remove(key)) {
                    for mut t in tasks.as_array().cloned().unwrap_or_default() {
                        t.as_object_mut().map(|o| o.remove("demand"));
                        services.push(t);
                    }
                }
            }
            job["services"] = Value::Array(services);
        }
    }
    let kind = if without_demand { "without any demand" } else { "with demands" };
    let ReadOutcome::Ok(problem) = read_problem(&gp) else {
        run.inconclusive("vrp weights: generated problem rejected by the reader");
        return;
    };
    let env = Arc::new(Environment::new(Arc::new(DefaultRandom::default()), None, Parallelism::new(1, 1), Arc::new(|_: &str| {}), false));
    let footprint = Footprint::new(problem.as_ref());
    let art = |extra: Value| json!({"part": "vrp-weights", "case_seed": case_seed, "problem_kind": kind, "problem": gp.problem, "matrices": gp.matrices, "observed": extra});
    let judge = |state: &str, mut ctx: InsertionContext| -> InsertionContext {
        let fp = footprint.clone();
        let outcome = run.guard(move || {
            ctx.on_init(&fp);
            let w = ctx.weights().to_vec();
            (ctx, w)
        });
        run.eval();
        match outcome {
            Ok((ctx, w)) => {
                run.observe("vrp_weights", &format!("{kind}|{state}"));
                if w.len() != 15 {
                    run.violation("C19|vrp-weights|dimension", &format!("{} weights instead of 15 for a solution ({state}, problem {kind})", w.len()), art(json!({"weights": w.iter().map(|x| format!("{x}")).collect::<Vec<_>>()})));
                }
                if let Some(i) = w.iter().position(|x| !x.is_finite()) {
                    run.violation(
                        &format!("C19|vrp-weights|non-finite|index={i}|state={state}|problem={kind}"),
                        &format!("weight {i} of a real routing solution ({state}, problem {kind}, {} tours) is {}", ctx.solution.routes.len(), w[i]),
                        art(json!({"weights": w.iter().map(|x| format!("{x}")).collect::<Vec<_>>(), "tours": ctx.solution.routes.len()})),
                    );
                }
                if ctx.solution.routes.len() > 0 {
                    run.nontrivial(&format!("vrp-weights|{kind}|{state}|{case_seed}"));
                }
                ctx
            }
            Err(info) => {
                run.violation(&format!("C19|vrp-weights|panic|{}", info.file()), &format!("on_init panicked ({state}, problem {kind}): {} at {}", info.message, info.location), art(info.to_json()));
                InsertionContext::new(problem.clone(), env.clone())
            }
        }
    };
    let empty = judge("no tour", InsertionContext::new(problem.clone(), env.clone()));
    let built = run.guard(|| {
        let refinement_ctx = RefinementContext::new(problem.clone(), Box::new(GreedyPopulation::new(problem.goal.clone(), 1, None)), TelemetryMode::None, env.clone());
        let constructed = RecreateWithCheapest::new(env.random.clone()).run(&refinement_ctx, empty);
        let copy = constructed.deep_copy();
        let limits = RemovalLimits { removed_activities_range: 2..8, affected_routes_range: 1..3 };
        let ruined = RandomJobRemoval::new(limits).run(&refinement_ctx, copy);
        (constructed, ruined)
    });
    match built {
        Ok((constructed, ruined)) => {
            judge("constructed", constructed);
            judge("ruined", ruined);
        }
        Err(_) => run.inconclusive("vrp weights: construction panicked (C01/C04's subject)"),
    }
}

fn main() {
    let run = Run::from_args(
        "C19",
        "exploration",
        "a case = one seeded input stream (clustered / duplicated / constant / outliers 1e6..1e12 / tiny min-max range / subnormal constant / \
         monotone drift / uniform / partly constant dimensions / growing magnitude / lattice; dimension 1..6) x one configuration \
         (spread, distribution, node_size 1..5, rebalance memory, learning rate | rosomaxa: initial/selection/elite/node size, exploration ratio, \
         termination-estimate and speed schedule) driven for 50..400 (thorough up to 1200) generations against Network (3/5 of the cases) or \
         Rosomaxa (2/5); one evaluation = the whole invariant set after one public operation. NON-TRIVIAL: a network case whose map grew or \
         was compacted at least once, a population case that reached the Exploration phase; DISTINCT by stream class x dimension x \
         configuration x (grew, compacted) x size bucket",
        40,
        480,
    );
    if let Some(path) = run.replay.clone() {
        replay(&run, &path);
        run.finish();
    }
    run.assume("inputs are finite vectors of one dimension per case (1..6) with |value| <= 1e12; NaN/inf inputs and mixed dimensions are outside the property's domain");
    run.assume("configurations stay inside the documented ranges: 0 < spread_factor, distribution_factor < 1, 0 < learning_rate <= 1, node_size/elite_size >= 1, selection_size >= 2, rebalance_memory >= 1, initial data / initial_size >= 4, termination estimate in [0,1]");
    run.assume("the network level is observed through the public API only; a remap collision is made observable by the harness storage noticing that it is destroyed while still holding individuals");
    run.assume("the population is observed through selection_phase/size/ranked and NetworkState::try_from; its key/find agreement is only visible as duplicate node coordinates there");
    run.assume("compaction inside Rosomaxa::on_generation is recognised by a shrinking node count; on_generation (smoothing + compaction only) is expected never to enlarge the map");
    run.assume("node.error reaching +inf is not judged (only NaN / negative); mse(), max_unified_distance(), node mse and unified distance must be finite and >= 0");
    run.assume("replay re-runs the seeded case up to 20 times: Network::new iterates a std HashMap with a random hasher, so node creation order is not reproducible");

    // the inputs the solver itself feeds into the map: the weights of real routing solutions (vrp-core metrics), before the
    // (time bounded) stream cases so that they are never starved
    let vrp_cases = run.by_tier(120u64, 2_000);
    par_for(8, vrp_cases, &|| !run.has_time_frac(0.15), &|i| vrp_weights_case(&run, mix(run.seed ^ 0x77E1, i)));

    let thorough = !run.is_quick();
    let cases = run.by_tier(200_000u64, 4_000_000);
    par_for(16, cases, &|| !run.has_time(), &|i| {
        let case_seed = mix(run.seed, i);
        run_case(&run, case_seed, thorough);
    });

    for k in ["with demands", "without any demand"] {
        for st in ["no tour", "constructed", "ruined"] {
            run.floor(&format!("weights of real routing solutions: problem {k}, state {st}"), run.observed("vrp_weights", &format!("{k}|{st}")), 5);
        }
    }
    run.floor("evaluations", run.evaluations(), 10_000);
    for op in ["new", "store_batch", "store_batch(1)", "smooth", "compact", "set_learning_rate"] {
        run.floor(&format!("network op {op}"), run.observed("network_ops", op), 10);
    }
    for op in ["add_all", "add", "on_generation", "select+all"] {
        run.floor(&format!("population op {op}"), run.observed("population_ops", op), 10);
    }
    run.floor("network growth events", run.observed("network_events", "growth (store_batch enlarged the map)"), 10);
    run.floor("network compactions that removed nodes", run.observed("network_events", "compaction removed nodes"), 10);
    run.floor("network compactions refused (fewer than four nodes would remain)", run.observed("network_events", "compaction left the map as it was"), 1);
    run.floor("population growth events", run.observed("population_events", "growth (add enlarged the map)"), 10);
    run.floor("population compactions that removed nodes", run.observed("population_events", "compaction removed nodes"), 10);
    for phase in ["Initial", "Exploration", "Exploitation"] {
        run.floor(&format!("population phase {phase}"), run.observed("population_phases", phase), 10);
    }
    for class in CLASSES {
        run.floor(&format!("network stream class {class}"), run.observed("network_class", class), 1);
        run.floor(&format!("population stream class {class}"), run.observed("population_class", class), 1);
    }
    run.floor("distinct non-trivial cases", run.distinct_nontrivial(), 50);
    run.finish();
}
