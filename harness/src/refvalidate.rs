//! O6: reference validator for pragmatic problem documents, written from the documentation only
//! (`docs/src/concepts/pragmatic/errors/index.md` + `problem/*.md` + `routing/*.md`), over `serde_json::Value`.
//!
//! Every documented rule (E1100–E1107, E1200–E1207, E1300–E1304, E1306–E1308, E1500–E1505, E1600–E1607 and the
//! matrix/profile consistency part of E0002) yields a three-valued outcome per document:
//! *violated* (the text clearly calls the document invalid), *unspecified* (the text leaves the case open; never
//! decides a verdict) or *satisfied*. Nothing here calls into /repo.
//!
//! Readings of the text which are deliberately left *unspecified* (not decided):
//! * time windows: start == end or closer than one second; windows touching in a single point; `times: []`; odd but
//!   arguably RFC3339 strings (lower-case `t`/`z`, blank separator, second 60, year 0000);
//! * demand: service task with an empty / all-zero demand; pickup/delivery/replacement task with `demand: []`;
//!   pickup/delivery sums over different dimension counts or with a missing demand (that is E1101);
//! * ids: the reserved-looking id `recharge`; a relation id which is a duplicated job id or a reserved word that is also
//!   a job id; a duplicated vehicle id referenced by a relation (E1205/E1206);
//! * relations: only reserved ids in `jobs` (E1202); `any` relation with a multi place / multi window job (E1203 names
//!   strict and sequence, relations.md calls such jobs unsupported in relations in general); `breaks: []` / `reloads: []`
//!   behind a reserved id; job mentioned more often than it has tasks or spread over several relations (E1207);
//! * shifts: `shifts: []` (vehicles.md wants one shift, no rule names it); several shifts of one type which intersect;
//!   contents of `start.latest` / `end.earliest`;
//! * breaks: window only partially outside the shift; everything about offset (numeric) times other than E1307; required
//!   breaks: `latest` before `earliest`, and intersections / containment which depend on whether the break duration is
//!   part of its "time window" (decided only when both readings agree);
//! * reloads: window partially outside the shift; intersecting windows inside ONE reload ("except multiple reloads can
//!   have time window intersections");
//! * routing: max location index == matrix size; custom (`type: unknown`) locations; non-square matrices or matrices
//!   whose arrays differ in length; profiles without a matching matrix, extra / duplicate matrices, a single timestamped
//!   matrix per profile (E0002 is decided only for the two documented profile/timestamp options);
//! * objectives: value in [0,1); order 0 or 1; E1605 when the document has no `objectives` property (E16xx are "related to
//!   objectives property definition"); maximize-value / tour-order / valued jobs when the only non-zero values or orders
//!   are negative; two cost objectives of the same type (E1606; it is E1601); empty list for E1602; several or empty
//!   `multi-objective` layers; compact-tour radius below its documented minimum (pseudo entry `doc-notes`).

use serde_json::Value;
use std::collections::{BTreeMap, BTreeSet};

pub const RULES: &[&str] = &[
    "E0002", "E1100", "E1101", "E1102", "E1103", "E1104", "E1105", "E1106", "E1107", "E1200", "E1201", "E1202", "E1203", "E1204", "E1205",
    "E1206", "E1207", "E1300", "E1301", "E1302", "E1303", "E1304", "E1306", "E1307", "E1308", "E1500", "E1501", "E1502", "E1503", "E1504",
    "E1505", "E1600", "E1601", "E1602", "E1603", "E1604", "E1605", "E1606", "E1607",
];

/// Pseudo entry of a report: documented bounds which no rule names (only ever unspecified).
pub const NOTES: &str = "doc-notes";

pub const TASK_KINDS: [&str; 4] = ["pickups", "deliveries", "replacements", "services"];
/// Reserved ids as documented (E1104, relations.md).
pub const RESERVED: [&str; 4] = ["departure", "arrival", "break", "reload"];
/// Not documented as reserved, but used by the (experimental) recharge feature: never decided.
const GREY_IDS: [&str; 1] = ["recharge"];

#[derive(Clone, Copy, Debug, PartialEq, Eq)]
pub enum Tri {
    Violated,
    Satisfied,
    Unspecified,
}

#[derive(Clone, Debug, Default)]
pub struct RuleOutcome {
    /// Reasons (with a json path) why the rule is clearly violated.
    pub violated: Vec<String>,
    /// Reasons why the text does not decide.
    pub unspecified: Vec<String>,
}

impl RuleOutcome {
    pub fn tri(&self) -> Tri {
        if !self.violated.is_empty() {
            Tri::Violated
        } else if !self.unspecified.is_empty() {
            Tri::Unspecified
        } else {
            Tri::Satisfied
        }
    }
    fn v(&mut self, why: String) {
        if self.violated.len() < 8 {
            self.violated.push(why);
        }
    }
    fn u(&mut self, why: String) {
        if self.unspecified.len() < 64 {
            self.unspecified.push(why);
        }
    }
}

#[derive(Clone, Debug, Default)]
pub struct Report {
    pub rules: BTreeMap<&'static str, RuleOutcome>,
}

impl Report {
    pub fn tri(&self, rule: &str) -> Tri {
        self.rules.get(rule).map(|r| r.tri()).unwrap_or(Tri::Satisfied)
    }
    pub fn violated(&self) -> Vec<&'static str> {
        self.rules.iter().filter(|(_, o)| o.tri() == Tri::Violated).map(|(r, _)| *r).collect()
    }
    pub fn unspecified(&self) -> Vec<&'static str> {
        self.rules.iter().filter(|(_, o)| o.tri() == Tri::Unspecified).map(|(r, _)| *r).collect()
    }
    /// `(rule, reason)` pairs of everything left open, for comparison with another document.
    pub fn unspecified_reasons(&self) -> BTreeSet<(String, String)> {
        self.rules.iter().flat_map(|(r, o)| o.unspecified.iter().map(move |w| (r.to_string(), w.clone()))).collect()
    }
    pub fn why(&self, rule: &str) -> String {
        self.rules.get(rule).map(|o| o.violated.iter().chain(o.unspecified.iter()).cloned().collect::<Vec<_>>().join("; ")).unwrap_or_default()
    }
    /// No documented rule is clearly violated.
    pub fn is_valid(&self) -> bool {
        self.violated().is_empty()
    }
}

/// True when the reference finds no clearly violated documented rule.
pub fn is_valid(problem: &Value, matrices: &[Value]) -> bool {
    validate(problem, matrices).is_valid()
}

// ---------------------------------------------------------------------------------------------
// json helpers

static EMPTY: Vec<Value> = Vec::new();

fn arr<'a>(v: &'a Value, key: &str) -> &'a [Value] {
    v.get(key).and_then(|x| x.as_array()).map(|a| a.as_slice()).unwrap_or(&EMPTY)
}

fn present(v: &Value, key: &str) -> bool {
    v.get(key).is_some_and(|x| !x.is_null())
}

fn s<'a>(v: &'a Value, key: &str) -> Option<&'a str> {
    v.get(key).and_then(|x| x.as_str())
}

fn f(v: &Value, key: &str) -> Option<f64> {
    v.get(key).and_then(|x| x.as_f64())
}

fn jobs(p: &Value) -> &[Value] {
    arr(&p["plan"], "jobs")
}

fn vehicles(p: &Value) -> &[Value] {
    arr(&p["fleet"], "vehicles")
}

fn tasks_of<'a>(job: &'a Value) -> impl Iterator<Item = (&'static str, usize, &'a Value)> {
    TASK_KINDS.iter().flat_map(move |k| arr(job, k).iter().enumerate().map(move |(i, t)| (*k, i, t)))
}

fn dups<'a>(items: impl Iterator<Item = &'a str>) -> Vec<String> {
    let mut seen = BTreeSet::new();
    let mut d = BTreeSet::new();
    for i in items {
        if !seen.insert(i) {
            d.insert(i.to_string());
        }
    }
    d.into_iter().collect()
}

// ---------------------------------------------------------------------------------------------
// time

#[derive(Clone, Copy, Debug, PartialEq)]
pub enum TimeParse {
    /// Unix seconds (with fraction).
    Ok(f64),
    /// Clearly not an RFC3339 date-time.
    Bad,
    /// Arguably RFC3339, but unusual: not decided.
    Odd,
}

fn days_in_month(y: i64, m: i64) -> i64 {
    match m {
        1 | 3 | 5 | 7 | 8 | 10 | 12 => 31,
        4 | 6 | 9 | 11 => 30,
        _ => {
            if (y % 4 == 0 && y % 100 != 0) || y % 400 == 0 {
                29
            } else {
                28
            }
        }
    }
}

fn days_from_civil(y: i64, m: i64, d: i64) -> i64 {
    let y = if m <= 2 { y - 1 } else { y };
    let era = if y >= 0 { y } else { y - 399 } / 400;
    let yoe = y - era * 400;
    let mp = (m + 9) % 12;
    let doy = (153 * mp + 2) / 5 + d - 1;
    let doe = yoe * 365 + yoe / 4 - yoe / 100 + doy;
    era * 146_097 + doe - 719_468
}

/// Own RFC3339 `date-time` recogniser (RFC3339 §5.6): `YYYY-MM-DDThh:mm:ss[.f+](Z|±hh:mm)`.
pub fn rfc3339(text: &str) -> TimeParse {
    let b = text.as_bytes();
    if b.len() < 20 || !text.is_ascii() {
        return TimeParse::Bad;
    }
    let num = |from: usize, to: usize| -> Option<i64> {
        let t = &text[from..to];
        if t.bytes().all(|c| c.is_ascii_digit()) { t.parse::<i64>().ok() } else { None }
    };
    let mut odd = false;
    if b[4] != b'-' || b[7] != b'-' || b[13] != b':' || b[16] != b':' {
        return TimeParse::Bad;
    }
    match b[10] {
        b'T' => {}
        b't' | b' ' => odd = true,
        _ => return TimeParse::Bad,
    }
    let (Some(y), Some(mo), Some(d), Some(h), Some(mi), Some(se)) = (num(0, 4), num(5, 7), num(8, 10), num(11, 13), num(14, 16), num(17, 19)) else {
        return TimeParse::Bad;
    };
    if !(1..=12).contains(&mo) || d < 1 || d > days_in_month(y, mo) || h > 23 || mi > 59 || se > 60 {
        return TimeParse::Bad;
    }
    if se == 60 || y == 0 {
        odd = true;
    }
    let mut i = 19;
    let mut frac = 0f64;
    if b[i] == b'.' {
        i += 1;
        let st = i;
        while i < b.len() && b[i].is_ascii_digit() {
            i += 1;
        }
        if i == st {
            return TimeParse::Bad;
        }
        frac = format!("0.{}", &text[st..i]).parse::<f64>().unwrap_or(0.);
    }
    if i >= b.len() {
        return TimeParse::Bad;
    }
    let off = match b[i] {
        b'Z' => {
            if i + 1 != b.len() {
                return TimeParse::Bad;
            }
            0
        }
        b'z' => {
            if i + 1 != b.len() {
                return TimeParse::Bad;
            }
            odd = true;
            0
        }
        sign @ (b'+' | b'-') => {
            if b.len() != i + 6 || b[i + 3] != b':' {
                return TimeParse::Bad;
            }
            let (Some(oh), Some(om)) = (num(i + 1, i + 3), num(i + 4, i + 6)) else { return TimeParse::Bad };
            if oh > 23 || om > 59 {
                return TimeParse::Bad;
            }
            let o = oh * 3600 + om * 60;
            if sign == b'+' { o } else { -o }
        }
        _ => return TimeParse::Bad,
    };
    if odd {
        return TimeParse::Odd;
    }
    TimeParse::Ok((days_from_civil(y, mo, d) * 86_400 + h * 3600 + mi * 60 + se - off) as f64 + frac)
}

/// A window judged by the E1103 criteria 1 and 2; returns its bounds when both parse.
fn judge_window(w: &Value, path: &str, out: &mut RuleOutcome) -> Option<(f64, f64)> {
    let Some(items) = w.as_array() else {
        out.u(format!("{path}: not an array"));
        return None;
    };
    if items.len() != 2 {
        out.v(format!("{path}: window is an array of {} strings, not two", items.len()));
        return None;
    }
    let mut bounds = [0f64; 2];
    let mut ok = true;
    for (k, item) in items.iter().enumerate() {
        match item.as_str().map(rfc3339) {
            Some(TimeParse::Ok(t)) => bounds[k] = t,
            Some(TimeParse::Bad) => {
                out.v(format!("{path}[{k}]: '{}' is not an RFC3339 date", item.as_str().unwrap_or("")));
                ok = false;
            }
            Some(TimeParse::Odd) => {
                out.u(format!("{path}[{k}]: unusual RFC3339 spelling"));
                ok = false;
            }
            None => {
                out.u(format!("{path}[{k}]: not a string"));
                ok = false;
            }
        }
    }
    if !ok {
        return None;
    }
    if bounds[0] - bounds[1] >= 1. {
        out.v(format!("{path}: start is later than end"));
        return None;
    }
    if bounds[1] - bounds[0] < 1. {
        out.u(format!("{path}: start equals end (or differs by less than a second)"));
        return None;
    }
    Some((bounds[0], bounds[1]))
}

/// E1103 criterion 3 over a list of windows (any pair).
fn judge_intersections(wins: &[(usize, (f64, f64))], path: &str, out: &mut RuleOutcome) {
    let wide: Vec<(usize, (f64, f64), f64)> = wins.iter().map(|(i, w)| (*i, *w, w.1)).collect();
    judge_intersections_wide(&wide, path, out);
}

/// As above; every window additionally has a "possible" end (>= its end): an overlap which only exists under the
/// possible ends is left open.
fn judge_intersections_wide(wins: &[(usize, (f64, f64), f64)], path: &str, out: &mut RuleOutcome) {
    for a in 0..wins.len() {
        for b in a + 1..wins.len() {
            let (ia, (s1, e1), w1) = wins[a];
            let (ib, (s2, e2), w2) = wins[b];
            let overlap = e1.min(e2) - s1.max(s2);
            let possible = w1.min(w2) - s1.max(s2);
            if overlap >= 1. {
                out.v(format!("{path}: windows {ia} and {ib} intersect"));
            } else if overlap > -1. {
                out.u(format!("{path}: windows {ia} and {ib} touch"));
            } else if possible > -1. {
                out.u(format!("{path}: windows {ia} and {ib} intersect only when the break duration is counted"));
            }
        }
    }
}

/// The three E1103 criteria on a `times` list (null/missing is fine).
fn judge_times(times: Option<&Value>, path: &str, out: &mut RuleOutcome) -> Vec<(f64, f64)> {
    let Some(times) = times.filter(|t| !t.is_null()) else { return vec![] };
    let Some(list) = times.as_array() else {
        out.u(format!("{path}: not a list"));
        return vec![];
    };
    if list.is_empty() {
        out.u(format!("{path}: empty list of time windows"));
        return vec![];
    }
    let mut good = Vec::new();
    for (i, w) in list.iter().enumerate() {
        if let Some(b) = judge_window(w, &format!("{path}[{i}]"), out) {
            good.push((i, b));
        }
    }
    judge_intersections(&good, path, out);
    good.into_iter().map(|g| g.1).collect()
}

// ---------------------------------------------------------------------------------------------
// locations

#[derive(Clone, Copy, Debug, PartialEq, Eq, PartialOrd, Ord)]
pub enum LocKind {
    Coordinate,
    Index,
    Custom,
    Other,
}

pub fn loc_kind(l: &Value) -> LocKind {
    if l.get("lat").is_some_and(|x| x.is_number()) && l.get("lng").is_some_and(|x| x.is_number()) {
        LocKind::Coordinate
    } else if l.get("index").is_some_and(|x| x.is_u64()) {
        LocKind::Index
    } else if l.get("type").is_some() {
        LocKind::Custom
    } else {
        LocKind::Other
    }
}

/// All location objects of a problem in document order (jobs first, then fleet).
pub fn all_locations(p: &Value) -> Vec<(String, &Value)> {
    let mut out = Vec::new();
    for (j, job) in jobs(p).iter().enumerate() {
        for (kind, t, task) in tasks_of(job) {
            for (pi, place) in arr(task, "places").iter().enumerate() {
                if let Some(l) = place.get("location") {
                    out.push((format!("plan.jobs[{j}].{kind}[{t}].places[{pi}].location"), l));
                }
            }
        }
    }
    for (v, vt) in vehicles(p).iter().enumerate() {
        for (si, shift) in arr(vt, "shifts").iter().enumerate() {
            let base = format!("fleet.vehicles[{v}].shifts[{si}]");
            if let Some(l) = shift["start"].get("location") {
                out.push((format!("{base}.start.location"), l));
            }
            if present(shift, "end") {
                if let Some(l) = shift["end"].get("location") {
                    out.push((format!("{base}.end.location"), l));
                }
            }
            for (bi, br) in arr(shift, "breaks").iter().enumerate() {
                for (pi, place) in arr(br, "places").iter().enumerate() {
                    if let Some(l) = place.get("location").filter(|l| !l.is_null()) {
                        out.push((format!("{base}.breaks[{bi}].places[{pi}].location"), l));
                    }
                }
            }
            for (ri, r) in arr(shift, "reloads").iter().enumerate() {
                if let Some(l) = r.get("location") {
                    out.push((format!("{base}.reloads[{ri}].location"), l));
                }
            }
            if present(shift, "recharges") {
                for (ri, r) in arr(&shift["recharges"], "stations").iter().enumerate() {
                    if let Some(l) = r.get("location") {
                        out.push((format!("{base}.recharges.stations[{ri}].location"), l));
                    }
                }
            }
        }
    }
    out
}

// ---------------------------------------------------------------------------------------------
// the rules

pub fn validate(p: &Value, matrices: &[Value]) -> Report {
    let mut rep = Report::default();
    for r in RULES {
        rep.rules.insert(r, RuleOutcome::default());
    }
    let mut put = |rule: &'static str, out: RuleOutcome| {
        rep.rules.insert(rule, out);
    };

    jobs_rules(p, &mut put);
    relation_rules(p, &mut put);
    vehicle_rules(p, &mut put);
    routing_rules(p, matrices, &mut put);
    objective_rules(p, &mut put);
    rep
}

fn is_zero_demand(d: &Value) -> bool {
    d.as_array().is_some_and(|a| a.iter().all(|x| x.as_i64() == Some(0)))
}

fn jobs_rules(p: &Value, put: &mut impl FnMut(&'static str, RuleOutcome)) {
    let all = jobs(p);
    // E1100
    let mut e1100 = RuleOutcome::default();
    for d in dups(all.iter().filter_map(|j| s(j, "id"))) {
        e1100.v(format!("plan.jobs: id '{d}' is used more than once"));
    }
    put("E1100", e1100);

    let (mut e1101, mut e1102, mut e1103, mut e1104, mut e1105, mut e1106, mut e1107) = (
        RuleOutcome::default(),
        RuleOutcome::default(),
        RuleOutcome::default(),
        RuleOutcome::default(),
        RuleOutcome::default(),
        RuleOutcome::default(),
        RuleOutcome::default(),
    );
    for (j, job) in all.iter().enumerate() {
        let id = s(job, "id").unwrap_or("");
        // E1104
        if RESERVED.contains(&id) {
            e1104.v(format!("plan.jobs[{j}].id: '{id}' is reserved"));
        } else if GREY_IDS.contains(&id) {
            e1104.u(format!("plan.jobs[{j}].id: '{id}' is not documented as reserved, but used by the recharge feature"));
        }
        // E1105
        if TASK_KINDS.iter().all(|k| arr(job, k).is_empty()) {
            e1105.v(format!("plan.jobs[{j}]: no or only empty task lists"));
        }
        for (kind, t, task) in tasks_of(job) {
            let path = format!("plan.jobs[{j}].{kind}[{t}]");
            let demand = task.get("demand").filter(|d| !d.is_null());
            // E1101
            if kind == "services" {
                if let Some(d) = demand {
                    if d.as_array().is_some_and(|a| a.is_empty()) {
                        e1101.u(format!("{path}.demand: service with an empty demand list"));
                    } else if is_zero_demand(d) {
                        e1101.u(format!("{path}.demand: service with an all-zero demand"));
                    } else {
                        e1101.v(format!("{path}.demand: service task has a demand"));
                    }
                }
            } else {
                match demand {
                    None => e1101.v(format!("{path}.demand: {kind} task has no demand")),
                    Some(d) if d.as_array().is_some_and(|a| a.is_empty()) => e1101.u(format!("{path}.demand: empty demand list")),
                    _ => {}
                }
            }
            // E1107
            if let Some(d) = demand.and_then(|d| d.as_array()) {
                if d.iter().any(|x| x.as_i64().is_some_and(|x| x < 0)) {
                    e1107.v(format!("{path}.demand: negative demand"));
                }
            }
            for (pi, place) in arr(task, "places").iter().enumerate() {
                // E1106
                match f(place, "duration") {
                    Some(d) if d < 0. => e1106.v(format!("{path}.places[{pi}].duration: negative")),
                    Some(d) if d == 0. && d.is_sign_negative() => e1106.u(format!("{path}.places[{pi}].duration: negative zero")),
                    _ => {}
                }
                // E1103
                judge_times(place.get("times"), &format!("{path}.places[{pi}].times"), &mut e1103);
            }
        }
        // E1102
        let (pk, dl) = (arr(job, "pickups"), arr(job, "deliveries"));
        if !pk.is_empty() && !dl.is_empty() {
            let path = format!("plan.jobs[{j}]");
            let sum = |tasks: &[Value]| -> Option<(Vec<i128>, BTreeSet<usize>)> {
                let mut total: Vec<i128> = vec![];
                let mut lens = BTreeSet::new();
                for t in tasks {
                    let d = t.get("demand").and_then(|d| d.as_array())?;
                    lens.insert(d.len());
                    for (k, x) in d.iter().enumerate() {
                        if total.len() <= k {
                            total.resize(k + 1, 0);
                        }
                        total[k] += x.as_i64()? as i128;
                    }
                }
                Some((total, lens))
            };
            match (sum(pk), sum(dl)) {
                (Some((a, la)), Some((b, lb))) => {
                    let n = a.len().max(b.len());
                    let get = |v: &Vec<i128>, k: usize| v.get(k).copied().unwrap_or(0);
                    let differ = (0..n).any(|k| get(&a, k) != get(&b, k));
                    let same_dims = la.len() == 1 && la == lb;
                    if differ {
                        e1102.v(format!("{path}: sum of pickup demand {a:?} differs from sum of delivery demand {b:?}"));
                    } else if !same_dims {
                        e1102.u(format!("{path}: pickup/delivery demands use different dimension counts"));
                    }
                }
                _ => e1102.u(format!("{path}: a pickup/delivery task has no demand (E1101)")),
            }
        }
    }
    put("E1101", e1101);
    put("E1102", e1102);
    put("E1103", e1103);
    put("E1104", e1104);
    put("E1105", e1105);
    put("E1106", e1106);
    put("E1107", e1107);
}

struct VehicleRef<'a> {
    vtype: &'a Value,
}

fn find_vehicle<'a>(p: &'a Value, vehicle_id: &str) -> Option<VehicleRef<'a>> {
    vehicles(p).iter().find(|vt| arr(vt, "vehicleIds").iter().any(|id| id.as_str() == Some(vehicle_id))).map(|vtype| VehicleRef { vtype })
}

fn relation_rules(p: &Value, put: &mut impl FnMut(&'static str, RuleOutcome)) {
    let rels = arr(&p["plan"], "relations");
    let (mut e1200, mut e1201, mut e1202, mut e1203, mut e1204, mut e1205, mut e1206, mut e1207) = (
        RuleOutcome::default(),
        RuleOutcome::default(),
        RuleOutcome::default(),
        RuleOutcome::default(),
        RuleOutcome::default(),
        RuleOutcome::default(),
        RuleOutcome::default(),
        RuleOutcome::default(),
    );
    let job_by_id: BTreeMap<&str, &Value> = jobs(p).iter().filter_map(|j| s(j, "id").map(|id| (id, j))).collect();
    let job_dups = dups(jobs(p).iter().filter_map(|j| s(j, "id")));
    let ambiguous: BTreeSet<&str> =
        job_by_id.keys().copied().filter(|id| job_dups.iter().any(|d| d == id) || RESERVED.contains(id) || GREY_IDS.contains(id)).collect();
    let vehicle_dups: BTreeSet<String> = dups(vehicles(p).iter().flat_map(|v| arr(v, "vehicleIds").iter().filter_map(|x| x.as_str()))).into_iter().collect();
    let mut job_vehicles: BTreeMap<&str, BTreeSet<&str>> = BTreeMap::new();
    let mut job_mentions: BTreeMap<&str, Vec<usize>> = BTreeMap::new(); // per relation mention counts
    for (ri, rel) in rels.iter().enumerate() {
        let path = format!("plan.relations[{ri}]");
        let ids: Vec<&str> = arr(rel, "jobs").iter().filter_map(|x| x.as_str()).collect();
        let vehicle_id = s(rel, "vehicleId").unwrap_or("");
        let rtype = s(rel, "type").unwrap_or("");
        let is_reserved = |id: &str| RESERVED.contains(&id);
        let is_grey = |id: &str| GREY_IDS.contains(&id) && !job_by_id.contains_key(id);
        // E1202
        if ids.is_empty() {
            e1202.v(format!("{path}.jobs: empty"));
        } else if ids.iter().all(|id| (is_reserved(id) && !job_by_id.contains_key(id)) || is_grey(id)) {
            e1202.u(format!("{path}.jobs: only reserved ids"));
        }
        // E1200
        for id in ids.iter() {
            if is_grey(id) {
                e1200.u(format!("{path}.jobs: '{id}' is not documented as reserved"));
            } else if !is_reserved(id) && !job_by_id.contains_key(id) {
                e1200.v(format!("{path}.jobs: '{id}' is not in plan.jobs"));
            }
        }
        // E1201
        let vehicle = find_vehicle(p, vehicle_id);
        if vehicle.is_none() {
            e1201.v(format!("{path}.vehicleId: '{vehicle_id}' is not in the fleet"));
        }
        // ids which do not name exactly one job: nothing about them is decided
        for id in ids.iter() {
            if ambiguous.contains(id) {
                for o in [&mut e1200, &mut e1203, &mut e1204, &mut e1206, &mut e1207] {
                    o.u(format!("{path}.jobs: '{id}' is a duplicated job id or a reserved word used as job id"));
                }
            }
        }
        if vehicle_dups.contains(vehicle_id) {
            for o in [&mut e1205, &mut e1206] {
                o.u(format!("{path}.vehicleId: '{vehicle_id}' is a duplicated vehicle id"));
            }
        }
        // E1203 (the rule names strict and sequence; relations.md calls jobs with several places unsupported in any relation)
        for id in ids.iter() {
            if let Some(job) = job_by_id.get(id).filter(|_| !is_reserved(id)) {
                let multi_place = tasks_of(job).any(|(_, _, t)| arr(t, "places").len() > 1);
                let multi_tw = tasks_of(job).any(|(_, _, t)| arr(t, "places").iter().any(|pl| arr(pl, "times").len() > 1));
                if multi_place || multi_tw {
                    if rtype == "strict" || rtype == "sequence" {
                        e1203.v(format!("{path}: {rtype} relation refers job '{id}' with multiple places/time windows"));
                    } else {
                        e1203.u(format!("{path}: {rtype} relation refers job '{id}' with multiple places/time windows"));
                    }
                }
            }
        }
        // E1204 / E1207 bookkeeping
        let mut counted: BTreeMap<&str, usize> = BTreeMap::new();
        for id in ids.iter() {
            if !is_reserved(id) && job_by_id.contains_key(id) {
                *counted.entry(id).or_default() += 1;
                job_vehicles.entry(id).or_default().insert(vehicle_id);
            }
        }
        for (id, n) in counted {
            job_mentions.entry(id).or_default().push(n);
        }
        // E1205
        let shift_index = rel.get("shiftIndex").filter(|x| !x.is_null());
        let shifts = vehicle.as_ref().map(|v| arr(v.vtype, "shifts"));
        match (shift_index, shifts) {
            (Some(idx), Some(shifts)) => {
                if idx.as_u64().is_none_or(|i| i >= shifts.len() as u64) {
                    e1205.v(format!("{path}.shiftIndex: {idx} has no shift (vehicle has {})", shifts.len()));
                }
            }
            (None, Some(shifts)) if shifts.is_empty() => e1205.u(format!("{path}: default shift index on a vehicle without shifts")),
            (_, None) => e1205.u(format!("{path}: unknown vehicle")),
            _ => {}
        }
        // E1206
        let idx = shift_index.and_then(|x| x.as_u64()).unwrap_or(0) as usize;
        for (reserved, prop) in [("break", "breaks"), ("reload", "reloads"), ("arrival", "end")] {
            if !ids.contains(&reserved) || job_by_id.contains_key(reserved) {
                continue;
            }
            match shifts.and_then(|sh| sh.get(idx)) {
                Some(shift) => {
                    if !present(shift, prop) {
                        e1206.v(format!("{path}.jobs: '{reserved}' is used, but the shift has no '{prop}'"));
                    } else if shift[prop].as_array().is_some_and(|a| a.is_empty()) {
                        e1206.u(format!("{path}.jobs: '{reserved}' is used with an empty '{prop}' list"));
                    }
                }
                None => e1206.u(format!("{path}: shift cannot be resolved")),
            }
        }
    }
    // E1204
    for (id, vs) in job_vehicles.iter() {
        if vs.len() > 1 {
            e1204.v(format!("plan.relations: job '{id}' is assigned to vehicles {vs:?}"));
        }
    }
    // E1207
    for (id, mentions) in job_mentions.iter() {
        let n_tasks = tasks_of(job_by_id[id]).count();
        let total: usize = mentions.iter().sum();
        if total < n_tasks {
            e1207.v(format!("plan.relations: job '{id}' has {n_tasks} tasks, but is mentioned {total} times"));
        } else if mentions.len() > 1 || total > n_tasks {
            e1207.u(format!("plan.relations: job '{id}' with {n_tasks} tasks is mentioned {mentions:?} times"));
        }
    }
    put("E1200", e1200);
    put("E1201", e1201);
    put("E1202", e1202);
    put("E1203", e1203);
    put("E1204", e1204);
    put("E1205", e1205);
    put("E1206", e1206);
    put("E1207", e1207);
}

fn parse_field(v: &Value, key: &str) -> Option<TimeParse> {
    v.get(key).filter(|x| !x.is_null()).map(|x| x.as_str().map(rfc3339).unwrap_or(TimeParse::Odd))
}

fn vehicle_rules(p: &Value, put: &mut impl FnMut(&'static str, RuleOutcome)) {
    let (mut e1300, mut e1301, mut e1302, mut e1303, mut e1304, mut e1306, mut e1307, mut e1308) = (
        RuleOutcome::default(),
        RuleOutcome::default(),
        RuleOutcome::default(),
        RuleOutcome::default(),
        RuleOutcome::default(),
        RuleOutcome::default(),
        RuleOutcome::default(),
        RuleOutcome::default(),
    );
    let vts = vehicles(p);
    for d in dups(vts.iter().filter_map(|v| s(v, "typeId"))) {
        e1300.v(format!("fleet.vehicles: typeId '{d}' is used more than once"));
    }
    for d in dups(vts.iter().flat_map(|v| arr(v, "vehicleIds").iter().filter_map(|x| x.as_str()))) {
        e1301.v(format!("fleet.vehicles: vehicle id '{d}' is used more than once"));
    }
    let resources = arr(&p["fleet"], "resources");
    for d in dups(resources.iter().filter_map(|r| s(r, "id"))) {
        e1308.v(format!("fleet.resources: id '{d}' is used more than once"));
    }
    let resource_ids: BTreeSet<&str> = resources.iter().filter_map(|r| s(r, "id")).collect();

    for (v, vt) in vts.iter().enumerate() {
        // E1306
        let (cd, ct) = (f(&vt["costs"], "distance"), f(&vt["costs"], "time"));
        if let (Some(cd), Some(ct)) = (cd, ct) {
            if cd == 0. && ct == 0. {
                if cd.is_sign_negative() || ct.is_sign_negative() {
                    e1306.u(format!("fleet.vehicles[{v}].costs: negative zero"));
                } else {
                    e1306.v(format!("fleet.vehicles[{v}].costs: distance and time costs are both zero"));
                }
            }
        }
        if arr(vt, "shifts").is_empty() {
            e1302.u(format!("fleet.vehicles[{v}].shifts: empty (vehicles.md asks for at least one shift, no rule names it)"));
        }
        let mut shift_windows: Vec<(usize, Option<(f64, f64)>)> = Vec::new();
        for (si, shift) in arr(vt, "shifts").iter().enumerate() {
            let base = format!("fleet.vehicles[{v}].shifts[{si}]");
            // E1302
            let start = parse_field(&shift["start"], "earliest");
            let end = if present(shift, "end") { parse_field(&shift["end"], "latest") } else { None };
            let mut sw: Option<(f64, f64)> = None; // None: unknown, Some((s, inf)) open end
            match start {
                Some(TimeParse::Bad) => e1302.v(format!("{base}.start.earliest: not an RFC3339 date")),
                Some(TimeParse::Odd) | None => e1302.u(format!("{base}.start.earliest: unusual")),
                Some(TimeParse::Ok(st)) => match end {
                    None => sw = Some((st, f64::INFINITY)),
                    Some(TimeParse::Bad) => {}
                    Some(TimeParse::Odd) => {}
                    Some(TimeParse::Ok(en)) => {
                        if st - en >= 1. {
                            e1302.v(format!("{base}: start.earliest is later than end.latest"));
                        } else if en - st < 1. {
                            e1302.u(format!("{base}: start.earliest equals end.latest"));
                        } else {
                            sw = Some((st, en));
                        }
                    }
                },
            }
            match end {
                Some(TimeParse::Bad) => e1302.v(format!("{base}.end.latest: not an RFC3339 date")),
                Some(TimeParse::Odd) => e1302.u(format!("{base}.end.latest: unusual")),
                _ => {}
            }
            // start.latest / end.earliest: no documented rule names them
            let latest = parse_field(&shift["start"], "latest");
            match latest {
                Some(TimeParse::Ok(l)) => {
                    if let Some(TimeParse::Ok(st)) = start {
                        if l < st {
                            e1302.u(format!("{base}.start.latest: earlier than start.earliest"));
                        }
                        if let Some((_, en)) = sw {
                            if l > en {
                                e1302.u(format!("{base}.start.latest: later than end.latest"));
                            }
                        }
                    }
                }
                Some(_) => e1302.u(format!("{base}.start.latest: not a plain RFC3339 date")),
                None => {}
            }
            if present(shift, "end") {
                match parse_field(&shift["end"], "earliest") {
                    Some(TimeParse::Ok(e)) => {
                        if let Some((st, en)) = sw {
                            if e < st || e > en {
                                e1302.u(format!("{base}.end.earliest: outside the shift"));
                            }
                        }
                    }
                    Some(_) => e1302.u(format!("{base}.end.earliest: not a plain RFC3339 date")),
                    None => {}
                }
            }
            shift_windows.push((si, sw));

            // E1307
            let offset_used = arr(shift, "breaks").iter().any(|b| {
                let t = &b["time"];
                t.as_array().is_some_and(|a| !a.is_empty() && a.iter().all(|x| x.is_number()))
                    || (t.is_object() && (t["earliest"].is_number() || t["latest"].is_number()))
            });
            if offset_used {
                match (start, latest) {
                    (_, None) => e1307.v(format!("{base}: offset break time, but start.latest is not set")),
                    (Some(TimeParse::Ok(st)), Some(TimeParse::Ok(l))) => {
                        if (st - l).abs() >= 1. {
                            e1307.v(format!("{base}: offset break time, but start.latest differs from start.earliest"));
                        } else if s(&shift["start"], "earliest") != s(&shift["start"], "latest") {
                            e1307.u(format!("{base}: start.latest equals start.earliest as an instant, not as text"));
                        }
                    }
                    _ => e1307.u(format!("{base}: offset break time with unusual start times")),
                }
            }

            // E1303
            let mut break_windows: Vec<(usize, (f64, f64), f64)> = Vec::new();
            for (bi, br) in arr(shift, "breaks").iter().enumerate() {
                let bp = format!("{base}.breaks[{bi}].time");
                let t = &br["time"];
                if let Some(a) = t.as_array() {
                    if a.is_empty() {
                        // deserialises as an (empty) time window
                        e1303.v(format!("{bp}: window is an array of 0 strings, not two"));
                    } else if a.iter().all(|x| x.is_string()) {
                        if let Some((bs, be)) = judge_window(t, &bp, &mut e1303) {
                            break_windows.push((bi, (bs, be), be));
                            judge_inside(bs, be, sw, &bp, "break", &mut e1303);
                        }
                    } else {
                        // offsets
                        let nums: Vec<f64> = a.iter().filter_map(|x| x.as_f64()).collect();
                        let plain = nums.len() == 2 && nums[0] >= 0. && nums[1] - nums[0] >= 1.;
                        let inside = match sw {
                            Some((st, en)) => plain && st + nums[1] <= en,
                            None => false,
                        };
                        if !inside {
                            e1303.u(format!("{bp}: offset interval (not decided)"));
                        } else if let Some((st, _)) = sw {
                            break_windows.push((bi, (st + nums[0], st + nums[1]), st + nums[1]));
                        }
                    }
                } else if t.is_object() {
                    // required break: the text does not say whether its "time window" includes the duration
                    let dur = f(br, "duration").filter(|d| *d >= 0. && d.is_finite());
                    let (e, l) = (&t["earliest"], &t["latest"]);
                    if e.is_string() && l.is_string() {
                        match (rfc3339(e.as_str().unwrap()), rfc3339(l.as_str().unwrap()), dur) {
                            (TimeParse::Ok(bs), TimeParse::Ok(be), Some(dur)) => {
                                if be < bs {
                                    e1303.u(format!("{bp}: required break with latest before earliest"));
                                } else {
                                    let wide = be + dur;
                                    match sw {
                                        Some((st, en)) => {
                                            if wide < st - 1. || bs > en + 1. {
                                                e1303.v(format!("{bp}: required break is outside of vehicle shift times"));
                                            } else if bs < st || wide > en {
                                                e1303.u(format!("{bp}: required break partially outside the shift"));
                                            } else {
                                                break_windows.push((bi, (bs, be), wide));
                                            }
                                        }
                                        None => e1303.u(format!("{bp}: shift times unknown")),
                                    }
                                }
                            }
                            _ => e1303.u(format!("{bp}: required break time is not a plain RFC3339 date (or odd duration)")),
                        }
                    } else {
                        match (e.as_f64(), l.as_f64(), sw, dur) {
                            (Some(a), Some(b), Some((st, en)), Some(dur)) if a >= 0. && b >= a && st + b + dur <= en => {
                                break_windows.push((bi, (st + a, st + b), st + b + dur));
                            }
                            _ => e1303.u(format!("{bp}: required offset break (not decided)")),
                        }
                    }
                } else {
                    e1303.u(format!("{bp}: unknown shape"));
                }
            }
            // several breaks follow the list rule of E1103 (E1304 names reloads as the exception)
            judge_intersections_wide(&break_windows, &format!("{base}.breaks"), &mut e1303);

            // E1304 / E1308
            for (ri, r) in arr(shift, "reloads").iter().enumerate() {
                let rp = format!("{base}.reloads[{ri}]");
                // E1304: "except multiple reloads can have time window intersections" – whether windows of ONE reload may
                // intersect is left open, everything else follows E1103
                let mut own = RuleOutcome::default();
                let wins = judge_times(r.get("times"), &format!("{rp}.times"), &mut own);
                for w in own.violated {
                    if w.ends_with("intersect") { e1304.u(w) } else { e1304.v(w) }
                }
                for w in own.unspecified {
                    e1304.u(w);
                }
                for (ws, we) in wins {
                    judge_inside(ws, we, sw, &format!("{rp}.times"), "reload", &mut e1304);
                }
                if let Some(rid) = s(r, "resourceId") {
                    if !resource_ids.contains(rid) {
                        e1308.v(format!("{rp}.resourceId: '{rid}' is not in fleet.resources"));
                    }
                }
            }
        }
        // several shifts: E1302 refers to the "time windows rules defined for jobs in E1103", whose last one is that several windows
        // must not intersect: two shifts with end times which share more than an instant break it; shifts that only touch, and
        // intersections with a shift without end, are left unspecified
        for a in 0..shift_windows.len() {
            for b in a + 1..shift_windows.len() {
                if let (Some((s1, e1)), Some((s2, e2))) = (shift_windows[a].1, shift_windows[b].1) {
                    let overlap = e1.min(e2) - s1.max(s2);
                    if overlap >= 1. && e1.is_finite() && e2.is_finite() {
                        e1302.v(format!("fleet.vehicles[{v}].shifts: shifts {a} and {b} intersect"));
                    } else if overlap > -1. {
                        e1302.u(format!("fleet.vehicles[{v}].shifts: shifts {a} and {b} touch or intersect a shift without end"));
                    }
                }
            }
        }
    }
    put("E1300", e1300);
    put("E1301", e1301);
    put("E1302", e1302);
    put("E1303", e1303);
    put("E1304", e1304);
    put("E1306", e1306);
    put("E1307", e1307);
    put("E1308", e1308);
}

/// "should be inside vehicle shift": totally outside is violated, partially outside is left open.
fn judge_inside(ws: f64, we: f64, shift: Option<(f64, f64)>, path: &str, what: &str, out: &mut RuleOutcome) {
    match shift {
        Some((st, en)) => {
            if we < st - 1. || ws > en + 1. {
                out.v(format!("{path}: {what} is outside of vehicle shift times"));
            } else if ws < st || we > en {
                out.u(format!("{path}: {what} is partially outside of vehicle shift times"));
            }
        }
        None => out.u(format!("{path}: shift times unknown")),
    }
}

fn isqrt(n: usize) -> Option<usize> {
    let r = (n as f64).sqrt().round() as usize;
    (r * r == n).then_some(r)
}

fn routing_rules(p: &Value, matrices: &[Value], put: &mut impl FnMut(&'static str, RuleOutcome)) {
    let (mut e0002, mut e1500, mut e1501, mut e1502, mut e1503, mut e1504, mut e1505) = (
        RuleOutcome::default(),
        RuleOutcome::default(),
        RuleOutcome::default(),
        RuleOutcome::default(),
        RuleOutcome::default(),
        RuleOutcome::default(),
        RuleOutcome::default(),
    );
    let profiles = arr(&p["fleet"], "profiles");
    for d in dups(profiles.iter().filter_map(|x| s(x, "name"))) {
        e1500.v(format!("fleet.profiles: name '{d}' is used more than once"));
    }
    if profiles.is_empty() {
        e1501.v("fleet.profiles: empty".to_string());
    }
    let names: BTreeSet<&str> = profiles.iter().filter_map(|x| s(x, "name")).collect();
    for (v, vt) in vehicles(p).iter().enumerate() {
        if let Some(m) = s(&vt["profile"], "matrix") {
            if !names.contains(m) {
                e1505.v(format!("fleet.vehicles[{v}].profile.matrix: '{m}' is not in fleet.profiles"));
            }
        }
    }
    if present(&p["plan"], "clustering") {
        if let Some(m) = s(&p["plan"]["clustering"]["profile"], "matrix") {
            if !names.contains(m) {
                e1505.v(format!("plan.clustering.profile.matrix: '{m}' is not in fleet.profiles"));
            }
        }
    }

    // locations
    let locs = all_locations(p);
    let mut kinds: BTreeMap<LocKind, usize> = BTreeMap::new();
    let mut indices: BTreeSet<u64> = BTreeSet::new();
    let mut coords: BTreeSet<(u64, u64)> = BTreeSet::new();
    for (_, l) in locs.iter() {
        let k = loc_kind(l);
        *kinds.entry(k).or_default() += 1;
        match k {
            LocKind::Index => {
                indices.insert(l["index"].as_u64().unwrap());
            }
            LocKind::Coordinate => {
                coords.insert((l["lat"].as_f64().unwrap().to_bits(), l["lng"].as_f64().unwrap().to_bits()));
            }
            _ => {}
        }
    }
    let has = |k: LocKind| kinds.get(&k).copied().unwrap_or(0) > 0;
    if has(LocKind::Coordinate) && has(LocKind::Index) {
        e1502.v("problem mixes geocoordinates and index references".to_string());
    } else if has(LocKind::Custom) || has(LocKind::Other) {
        e1502.u("custom location type is used".to_string());
    }
    if has(LocKind::Index) && matrices.is_empty() {
        e1503.v("location indices are used, but no routing matrix is provided".to_string());
    }
    // E1504
    if !matrices.is_empty() {
        let unique = indices.len() + coords.len();
        let max_index = indices.iter().next_back().copied();
        if has(LocKind::Custom) || has(LocKind::Other) {
            e1504.u("custom location type is used".to_string());
        }
        for (mi, m) in matrices.iter().enumerate() {
            let (d, t) = (arr(m, "distances").len(), arr(m, "travelTimes").len().max(arr(m, "durations").len()));
            let size = if d == t { isqrt(d) } else { None };
            match size {
                None => e1504.u(format!("matrix[{mi}]: not square or arrays differ in length ({d}/{t})")),
                Some(size) => {
                    if let Some(mx) = max_index {
                        if mx > size as u64 {
                            e1504.v(format!("matrix[{mi}]: max location index {mx} is greater than matrix size {size}"));
                        } else if mx == size as u64 {
                            e1504.u(format!("matrix[{mi}]: max location index {mx} equals matrix size"));
                        }
                    }
                    if unique > size {
                        e1504.v(format!("matrix[{mi}]: {unique} locations, matrix size {size}"));
                    }
                }
            }
        }
    }
    // E0002: the two documented options
    if !matrices.is_empty() {
        let with_ts = matrices.iter().filter(|m| present(m, "timestamp")).count();
        let with_profile = matrices.iter().filter(|m| present(m, "profile")).count();
        if with_ts > 0 && with_ts < matrices.len() {
            e0002.v("some matrices have a timestamp, some have not".to_string());
        } else if with_ts == matrices.len() && with_profile < matrices.len() {
            e0002.v("time dependent matrices require profile on all matrices".to_string());
        } else if with_ts == 0 && with_profile > 0 && with_profile < matrices.len() {
            e0002.v("profile is set on some matrices only".to_string());
        }
        // everything else about matching is only decided when it is plainly consistent
        let mut sizes = BTreeSet::new();
        for (mi, m) in matrices.iter().enumerate() {
            let (d, t) = (arr(m, "distances").len(), arr(m, "travelTimes").len().max(arr(m, "durations").len()));
            match (d == t).then(|| isqrt(d)).flatten() {
                Some(sz) => {
                    sizes.insert(sz);
                }
                None => e0002.u(format!("matrix[{mi}]: not square or arrays differ in length")),
            }
            if present(m, "errorCodes") && arr(m, "errorCodes").len() != d {
                e0002.u(format!("matrix[{mi}]: errorCodes length differs"));
            }
            if let Some(ts) = m.get("timestamp").filter(|x| !x.is_null()) {
                if !matches!(ts.as_str().map(rfc3339), Some(TimeParse::Ok(_))) {
                    e0002.u(format!("matrix[{mi}].timestamp: not a plain RFC3339 date"));
                }
            }
        }
        if sizes.len() > 1 {
            e0002.u("matrices have different sizes".to_string());
        }
        if with_profile == matrices.len() {
            let mnames: Vec<&str> = matrices.iter().filter_map(|m| s(m, "profile")).collect();
            let mset: BTreeSet<&str> = mnames.iter().copied().collect();
            if mset != names {
                e0002.u("matrix profile names differ from fleet.profiles names".to_string());
            }
            if with_ts == 0 && mset.len() != mnames.len() {
                e0002.u("several matrices for one profile without timestamps".to_string());
            }
            if with_ts == matrices.len() {
                let mut seen = BTreeSet::new();
                let mut per_profile: BTreeMap<&str, usize> = BTreeMap::new();
                for m in matrices {
                    if !seen.insert((s(m, "profile"), s(m, "timestamp"))) {
                        e0002.u("two matrices share profile and timestamp".to_string());
                    }
                    *per_profile.entry(s(m, "profile").unwrap_or("")).or_default() += 1;
                }
                if per_profile.values().any(|n| *n < 2) {
                    e0002.u("profile.md asks for more than one timestamped matrix per profile".to_string());
                }
                if per_profile.values().collect::<BTreeSet<_>>().len() > 1 {
                    e0002.u("profiles have different numbers of timestamped matrices".to_string());
                }
            }
        } else if with_profile == 0 && matrices.len() != profiles.len() {
            e0002.u("matrices without profile: count differs from fleet.profiles".to_string());
        }
    }
    put("E0002", e0002);
    put("E1500", e1500);
    put("E1501", e1501);
    put("E1502", e1502);
    put("E1503", e1503);
    put("E1504", e1504);
    put("E1505", e1505);
}

const COST_OBJECTIVES: [&str; 3] = ["minimize-cost", "minimize-distance", "minimize-duration"];

fn flatten_objectives<'a>(list: &'a [Value], depth: usize, out: &mut Vec<&'a Value>, layers: &mut Vec<usize>) {
    for o in list {
        if s(o, "type") == Some("multi-objective") && depth < 8 {
            layers.push(arr(o, "objectives").len());
            flatten_objectives(arr(o, "objectives"), depth + 1, out, layers);
        } else {
            out.push(o);
        }
    }
}

fn objective_rules(p: &Value, put: &mut impl FnMut(&'static str, RuleOutcome)) {
    let (mut e1600, mut e1601, mut e1602, mut e1603, mut e1604, mut e1605, mut e1606, mut e1607) = (
        RuleOutcome::default(),
        RuleOutcome::default(),
        RuleOutcome::default(),
        RuleOutcome::default(),
        RuleOutcome::default(),
        RuleOutcome::default(),
        RuleOutcome::default(),
        RuleOutcome::default(),
    );
    // E1605 is about jobs
    let mut values: Vec<f64> = Vec::new();
    let mut orders: Vec<i64> = Vec::new();
    for (j, job) in jobs(p).iter().enumerate() {
        if let Some(v) = f(job, "value") {
            values.push(v);
            if v < 0. {
                e1605.v(format!("plan.jobs[{j}].value: {v} is less than 1 and not greater than zero"));
            } else if v < 1. {
                e1605.u(format!("plan.jobs[{j}].value: {v} lies in [0,1)"));
            }
        }
        for (kind, t, task) in tasks_of(job) {
            if let Some(o) = task.get("order").and_then(|x| x.as_i64()) {
                orders.push(o);
                if o < 0 {
                    e1605.v(format!("plan.jobs[{j}].{kind}[{t}].order: {o} is less than 1"));
                } else if o <= 1 {
                    e1605.u(format!("plan.jobs[{j}].{kind}[{t}].order: {o} (docs: 'less than 1' is an error, 'greater than 1' is valid)"));
                }
            }
        }
    }
    if !present(p, "objectives") {
        // E16xx are "related to `objectives` property definition": without the property E1605 is not decided
        let open: Vec<String> = e1605.violated.drain(..).collect();
        for w in open {
            e1605.u(format!("{w} (no objectives property)"));
        }
    }
    if present(p, "objectives") {
        let list = arr(p, "objectives");
        let mut flat = Vec::new();
        let mut layers = Vec::new();
        flatten_objectives(list, 0, &mut flat, &mut layers);
        if list.is_empty() {
            e1600.v("objectives: empty".to_string());
        } else if flat.is_empty() {
            e1600.u("objectives: only empty multi-objective layers".to_string());
        }
        let types: Vec<&str> = flat.iter().filter_map(|o| s(o, "type")).collect();
        for d in dups(types.iter().copied()) {
            e1601.v(format!("objectives: '{d}' is specified more than once"));
        }
        if layers.len() > 1 {
            e1601.u("objectives: several multi-objective layers".to_string());
        }
        let cost: Vec<&str> = types.iter().copied().filter(|t| COST_OBJECTIVES.contains(t)).collect();
        if cost.is_empty() {
            if list.is_empty() {
                e1602.u("objectives: empty list (E1600)".to_string());
            } else {
                e1602.v("objectives: no cost objective".to_string());
            }
        }
        if cost.len() > 1 {
            if cost.iter().collect::<BTreeSet<_>>().len() > 1 {
                e1606.v(format!("objectives: several cost objectives {cost:?}"));
            } else {
                e1606.u("objectives: the same cost objective twice (E1601)".to_string());
            }
        }
        let has_value = types.contains(&"maximize-value");
        let has_order = types.contains(&"tour-order");
        // "non-zero": a negative value/order is non-zero by the letter, but E1605 forbids it: only positive ones decide
        if has_value && !values.iter().any(|v| *v > 0.) {
            if values.iter().any(|v| *v < 0.) {
                e1603.u("objectives: maximize-value and only negative job values".to_string());
            } else {
                e1603.v("objectives: maximize-value, but no job has a non-zero value".to_string());
            }
        }
        if has_order && !orders.iter().any(|o| *o > 0) {
            if orders.iter().any(|o| *o < 0) {
                e1604.u("objectives: tour-order and only negative orders".to_string());
            } else {
                e1604.v("objectives: tour-order, but no task has a non-zero order".to_string());
            }
        }
        if !has_value && !values.is_empty() {
            if values.iter().any(|v| *v > 0.) {
                e1607.v("objectives: jobs have values, but maximize-value is not among the objectives".to_string());
            } else {
                e1607.u("objectives: jobs have zero or negative values only".to_string());
            }
        }
    }
    // documented parameter bounds which no rule names: never decided
    let mut notes = RuleOutcome::default();
    if present(p, "objectives") {
        let mut flat = Vec::new();
        flatten_objectives(arr(p, "objectives"), 0, &mut flat, &mut Vec::new());
        for o in flat {
            if s(o, "type") == Some("compact-tour") {
                let radius = o.get("job_radius").or_else(|| o.get("jobRadius")).or_else(|| o["options"].get("jobRadius")).and_then(|x| x.as_u64());
                if radius.is_none_or(|r| r < 1) {
                    notes.u("objectives: compact-tour radius below the documented minimum of 1 (objectives.md; no rule names it)".to_string());
                }
            }
        }
    }
    put(NOTES, notes);
    put("E1600", e1600);
    put("E1601", e1601);
    put("E1602", e1602);
    put("E1603", e1603);
    put("E1604", e1604);
    put("E1605", e1605);
    put("E1606", e1606);
    put("E1607", e1607);
}

#[cfg(test)]
mod tests {
    use super::*;
    use serde_json::json;

    #[test]
    fn time_recogniser() {
        assert_eq!(rfc3339("2024-01-01T00:00:00Z"), TimeParse::Ok(1_704_067_200.));
        assert_eq!(rfc3339("2024-01-01T02:00:00+02:00"), TimeParse::Ok(1_704_067_200.));
        assert_eq!(rfc3339("2024-02-30T00:00:00Z"), TimeParse::Bad);
        assert_eq!(rfc3339("2024-01-01T00:00:00"), TimeParse::Bad);
        assert_eq!(rfc3339("not-a-date"), TimeParse::Bad);
        assert_eq!(rfc3339("2024-01-01t00:00:00Z"), TimeParse::Odd);
    }

    #[test]
    fn windows() {
        let mut o = RuleOutcome::default();
        judge_times(Some(&json!([["2020-07-04T12:00:00Z", "2020-07-04T11:00:00Z"]])), "t", &mut o);
        assert_eq!(o.tri(), Tri::Violated);
        let mut o = RuleOutcome::default();
        judge_times(Some(&json!([["2020-07-04T10:00:00Z", "2020-07-04T14:00:00Z"], ["2020-07-04T13:00:00Z", "2020-07-04T17:00:00Z"]])), "t", &mut o);
        assert_eq!(o.tri(), Tri::Violated);
        let mut o = RuleOutcome::default();
        judge_times(Some(&json!([["2020-07-04T10:00:00Z", "2020-07-04T14:00:00Z"], ["2020-07-04T14:00:00Z", "2020-07-04T17:00:00Z"]])), "t", &mut o);
        assert_eq!(o.tri(), Tri::Unspecified);
        let mut o = RuleOutcome::default();
        judge_times(Some(&json!([["2020-07-04T10:00:00Z", "2020-07-04T14:00:00Z"], ["2020-07-04T15:00:00Z", "2020-07-04T17:00:00Z"]])), "t", &mut o);
        assert_eq!(o.tri(), Tri::Satisfied);
    }
}
