//! O1 – the independent solution replayer (DESIGN.md §1).
//!
//! Input: problem JSON, matrix JSONs and solution JSON as `serde_json::Value`, read with own minimal
//! accessors (NOT `vrp_pragmatic::format::*`). It knows nothing about vrp-core. Per tour it walks
//! `stops[].activities[]` and recomputes, from matrices × profile scale and the documented semantics only,
//! schedule, distance, load and statistics, and evaluates the documented hard rules.
//!
//! Issues are tagged with the property they refute: C01 (hard rule broken), C02 (conservation),
//! C03 (reported number not reproducible).

use crate::timeutil::parse_time;
use serde_json::Value;
use std::collections::{BTreeMap, BTreeSet, HashMap, HashSet};

#[derive(Clone, Debug)]
pub struct Issue {
    pub prop: &'static str,
    pub rule: String,
    /// Workload class in which the rule failed (derived from the problem, e.g. `reload-shift`, `limit-duration`, `plain`).
    pub ctx: String,
    pub detail: String,
}

impl Issue {
    /// `C01|capacity|reload-shift`: stable signature used for known-finding matching.
    pub fn signature(&self) -> String {
        format!("{}|{}|{}", self.prop, self.rule, self.ctx)
    }
}

#[derive(Default, Debug)]
pub struct Report {
    pub issues: Vec<Issue>,
    /// rule -> (times evaluated, times binding i.e. slack <= 1 unit)
    pub rules: BTreeMap<String, (u64, u64)>,
    pub tours: usize,
    pub assigned_jobs: usize,
    pub unassigned_jobs: usize,
    pub activities: usize,
    /// Features met in the solution that O1 replays only partially (the tour is then checked with the weaker rule set).
    pub partial: BTreeSet<String>,
    /// Per tour: the assigned job ids in visiting order (for relation derivation, C11...).
    pub tour_jobs: Vec<(String, usize, Vec<String>)>,
    /// Context of the tour being replayed (set by `replay_tour`).
    cur_ctx: String,
}

impl Report {
    fn issue(&mut self, prop: &'static str, rule: &str, detail: String) {
        if self.issues.len() < 200 {
            let ctx = if self.cur_ctx.is_empty() { "solution".to_string() } else { self.cur_ctx.clone() };
            self.issues.push(Issue { prop, rule: rule.to_string(), ctx, detail });
        }
    }

    fn rule(&mut self, rule: &str, binding: bool) {
        let e = self.rules.entry(rule.to_string()).or_default();
        e.0 += 1;
        if binding {
            e.1 += 1;
        }
    }

    pub fn issues_of(&self, prop: &str) -> Vec<&Issue> {
        self.issues.iter().filter(|i| i.prop == prop).collect()
    }

    pub fn is_clean(&self) -> bool {
        self.issues.is_empty()
    }
}

// ------------------------------------------------------------------------------------------------
// problem model (own, minimal)

#[derive(Clone, Debug, PartialEq, Eq, Hash, PartialOrd, Ord)]
pub enum TaskKind {
    Pickup,
    Delivery,
    Replacement,
    Service,
}

impl TaskKind {
    pub fn as_str(&self) -> &'static str {
        match self {
            TaskKind::Pickup => "pickup",
            TaskKind::Delivery => "delivery",
            TaskKind::Replacement => "replacement",
            TaskKind::Service => "service",
        }
    }
}

#[derive(Clone, Debug)]
pub struct PPlace {
    pub loc: usize,
    pub duration: f64,
    pub times: Vec<(i64, i64)>,
    pub tag: Option<String>,
}

#[derive(Clone, Debug)]
pub struct PTask {
    pub kind: TaskKind,
    pub places: Vec<PPlace>,
    pub demand: Vec<i64>,
    pub order: Option<i64>,
}

#[derive(Clone, Debug)]
pub struct PJob {
    pub id: String,
    pub tasks: Vec<PTask>,
    pub is_static: bool,
    pub all_of: Vec<String>,
    pub one_of: Vec<String>,
    pub none_of: Vec<String>,
    pub group: Option<String>,
    pub compat: Option<String>,
}

#[derive(Clone, Debug)]
pub enum BreakTime {
    Window(i64, i64),
    Offset(f64, f64),
}

#[derive(Clone, Debug)]
pub struct PBreakPlace {
    pub loc: Option<usize>,
    pub duration: f64,
    pub tag: Option<String>,
}

#[derive(Clone, Debug)]
pub struct PBreak {
    pub time: BreakTime,
    pub places: Vec<PBreakPlace>,
}

#[derive(Clone, Debug)]
pub struct PReload {
    pub loc: usize,
    pub duration: f64,
    pub times: Vec<(i64, i64)>,
    pub tag: Option<String>,
    pub resource: Option<String>,
}

#[derive(Clone, Debug)]
pub struct PShift {
    pub start_earliest: i64,
    pub start_latest: Option<i64>,
    pub start_loc: usize,
    pub end: Option<(i64, usize)>,
    pub breaks: Vec<PBreak>,
    pub required_breaks: usize,
    pub reloads: Vec<PReload>,
    pub has_recharge: bool,
}

#[derive(Clone, Debug)]
pub struct PVehicle {
    pub type_id: String,
    pub ids: Vec<String>,
    pub profile: String,
    pub scale: f64,
    pub fixed: f64,
    pub cost_distance: f64,
    pub cost_time: f64,
    pub shifts: Vec<PShift>,
    pub capacity: Vec<i64>,
    pub skills: BTreeSet<String>,
    pub max_distance: Option<f64>,
    pub max_duration: Option<f64>,
    pub tour_size: Option<i64>,
}

#[derive(Clone, Debug)]
pub struct PRelation {
    pub kind: String,
    pub jobs: Vec<String>,
    pub vehicle_id: String,
    pub shift_index: usize,
}

#[derive(Clone, Debug)]
pub struct PMatrix {
    pub size: usize,
    pub times: Vec<f64>,
    pub dists: Vec<f64>,
    pub errors: Option<Vec<i64>>,
}

#[derive(Clone, Debug)]
pub struct PProblem {
    pub jobs: Vec<PJob>,
    pub job_index: HashMap<String, usize>,
    pub vehicles: Vec<PVehicle>,
    pub relations: Vec<PRelation>,
    pub resources: HashMap<String, Vec<i64>>,
    pub matrices: HashMap<String, PMatrix>,
    pub has_clustering: bool,
    pub hard_order: bool,
    pub dims: usize,
    pub locmap: LocMap,
}

/// Location -> matrix index: identity for index references; for coordinates the documented order of first appearance
/// (jobs: pickups, deliveries, replacements, services; then fleet: per shift start, end, break places, reloads, recharges).
#[derive(Clone, Debug, Default)]
pub struct LocMap {
    coords: HashMap<String, usize>,
}

fn coord_key(v: &Value) -> Option<String> {
    Some(format!("{:?},{:?}", v.get("lat")?.as_f64()?, v.get("lng")?.as_f64()?))
}

impl LocMap {
    fn add(&mut self, v: &Value) {
        if let Some(k) = coord_key(v) {
            let n = self.coords.len();
            self.coords.entry(k).or_insert(n);
        }
    }

    pub fn build(problem: &Value) -> LocMap {
        let mut lm = LocMap::default();
        for j in problem["plan"]["jobs"].as_array().into_iter().flatten() {
            for key in ["pickups", "deliveries", "replacements", "services"] {
                for t in j.get(key).and_then(|a| a.as_array()).into_iter().flatten() {
                    for p in t["places"].as_array().into_iter().flatten() {
                        lm.add(&p["location"]);
                    }
                }
            }
        }
        for v in problem["fleet"]["vehicles"].as_array().into_iter().flatten() {
            for s in v["shifts"].as_array().into_iter().flatten() {
                lm.add(&s["start"]["location"]);
                if let Some(e) = s.get("end") {
                    lm.add(&e["location"]);
                }
                for b in s.get("breaks").and_then(|b| b.as_array()).into_iter().flatten() {
                    for p in b.get("places").and_then(|p| p.as_array()).into_iter().flatten() {
                        if let Some(l) = p.get("location") {
                            lm.add(l);
                        }
                    }
                }
                for r in s.get("reloads").and_then(|b| b.as_array()).into_iter().flatten() {
                    lm.add(&r["location"]);
                }
                for st in s.get("recharges").and_then(|r| r.get("stations")).and_then(|b| b.as_array()).into_iter().flatten() {
                    lm.add(&st["location"]);
                }
            }
        }
        lm
    }

    pub fn get(&self, v: &Value) -> Result<usize, String> {
        if let Some(i) = v.get("index").and_then(|i| i.as_u64()) {
            return Ok(i as usize);
        }
        coord_key(v).and_then(|k| self.coords.get(&k).copied()).ok_or_else(|| format!("location {v} is not a known location of the problem"))
    }

    pub fn len(&self) -> usize {
        self.coords.len()
    }

    pub fn is_empty(&self) -> bool {
        self.coords.is_empty()
    }
}

fn parse_windows(v: Option<&Value>) -> Result<Vec<(i64, i64)>, String> {
    let Some(arr) = v.and_then(|t| t.as_array()) else { return Ok(vec![]) };
    arr.iter()
        .map(|w| {
            let s = w.get(0).and_then(|s| s.as_str()).and_then(parse_time).ok_or("bad window start")?;
            let e = w.get(1).and_then(|s| s.as_str()).and_then(parse_time).ok_or("bad window end")?;
            Ok((s, e))
        })
        .collect()
}

fn str_list(v: Option<&Value>) -> Vec<String> {
    v.and_then(|a| a.as_array()).map(|a| a.iter().filter_map(|s| s.as_str().map(|s| s.to_string())).collect()).unwrap_or_default()
}

fn int_list(v: Option<&Value>) -> Vec<i64> {
    v.and_then(|a| a.as_array()).map(|a| a.iter().filter_map(|s| s.as_i64()).collect()).unwrap_or_default()
}

fn objectives_contain(objs: &Value, name: &str) -> bool {
    objs.as_array().is_some_and(|a| {
        a.iter().any(|o| o.get("type").and_then(|t| t.as_str()) == Some(name) || o.get("objectives").is_some_and(|inner| objectives_contain(inner, name)))
    })
}

impl PProblem {
    pub fn parse(problem: &Value, matrices: &[Value]) -> Result<PProblem, String> {
        let locmap = LocMap::build(problem);
        let loc_index = |v: &Value| locmap.get(v);
        let mut jobs = Vec::new();
        let mut any_order = false;
        let mut dims = 1;
        for j in problem["plan"]["jobs"].as_array().ok_or("no jobs")? {
            let id = j["id"].as_str().ok_or("job id")?.to_string();
            let mut tasks = Vec::new();
            let n_p = j.get("pickups").and_then(|a| a.as_array()).map_or(0, |a| a.len());
            let n_d = j.get("deliveries").and_then(|a| a.as_array()).map_or(0, |a| a.len());
            for (key, kind) in [("pickups", TaskKind::Pickup), ("deliveries", TaskKind::Delivery), ("replacements", TaskKind::Replacement), ("services", TaskKind::Service)] {
                for t in j.get(key).and_then(|a| a.as_array()).into_iter().flatten() {
                    let places = t["places"]
                        .as_array()
                        .ok_or("places")?
                        .iter()
                        .map(|p| {
                            Ok(PPlace {
                                loc: loc_index(&p["location"])?,
                                duration: p["duration"].as_f64().ok_or("duration")?,
                                times: parse_windows(p.get("times"))?,
                                tag: p.get("tag").and_then(|t| t.as_str()).map(|s| s.to_string()),
                            })
                        })
                        .collect::<Result<Vec<_>, String>>()?;
                    let demand = int_list(t.get("demand"));
                    dims = dims.max(demand.len());
                    let order = t.get("order").and_then(|o| o.as_i64());
                    any_order |= order.is_some();
                    tasks.push(PTask { kind: kind.clone(), places, demand, order });
                }
            }
            let skills = j.get("skills");
            jobs.push(PJob {
                id,
                tasks,
                is_static: n_p == 0 || n_d == 0,
                all_of: str_list(skills.and_then(|s| s.get("allOf"))),
                one_of: str_list(skills.and_then(|s| s.get("oneOf"))),
                none_of: str_list(skills.and_then(|s| s.get("noneOf"))),
                group: j.get("group").and_then(|g| g.as_str()).map(|s| s.to_string()),
                compat: j.get("compatibility").and_then(|g| g.as_str()).map(|s| s.to_string()),
            });
        }
        let job_index = jobs.iter().enumerate().map(|(i, j)| (j.id.clone(), i)).collect();
        let mut vehicles = Vec::new();
        for v in problem["fleet"]["vehicles"].as_array().ok_or("no vehicles")? {
            let mut shifts = Vec::new();
            for s in v["shifts"].as_array().ok_or("shifts")? {
                let start = &s["start"];
                let mut breaks = Vec::new();
                let mut required_breaks = 0;
                for b in s.get("breaks").and_then(|b| b.as_array()).into_iter().flatten() {
                    if b.get("places").is_none() {
                        required_breaks += 1;
                        continue;
                    }
                    let t = b["time"].as_array().ok_or("break time")?;
                    let time = if t.first().is_some_and(|x| x.is_string()) {
                        BreakTime::Window(
                            t[0].as_str().and_then(parse_time).ok_or("break tw")?,
                            t.get(1).and_then(|x| x.as_str()).and_then(parse_time).ok_or("break tw")?,
                        )
                    } else {
                        BreakTime::Offset(t[0].as_f64().ok_or("break off")?, t.get(1).and_then(|x| x.as_f64()).ok_or("break off")?)
                    };
                    let places = b["places"]
                        .as_array()
                        .ok_or("break places")?
                        .iter()
                        .map(|p| {
                            Ok(PBreakPlace {
                                loc: match p.get("location") {
                                    Some(l) => Some(loc_index(l)?),
                                    None => None,
                                },
                                duration: p["duration"].as_f64().ok_or("break duration")?,
                                tag: p.get("tag").and_then(|t| t.as_str()).map(|s| s.to_string()),
                            })
                        })
                        .collect::<Result<Vec<_>, String>>()?;
                    breaks.push(PBreak { time, places });
                }
                let mut reloads = Vec::new();
                for r in s.get("reloads").and_then(|b| b.as_array()).into_iter().flatten() {
                    reloads.push(PReload {
                        loc: loc_index(&r["location"])?,
                        duration: r["duration"].as_f64().ok_or("reload duration")?,
                        times: parse_windows(r.get("times"))?,
                        tag: r.get("tag").and_then(|t| t.as_str()).map(|s| s.to_string()),
                        resource: r.get("resourceId").and_then(|t| t.as_str()).map(|s| s.to_string()),
                    });
                }
                shifts.push(PShift {
                    start_earliest: start["earliest"].as_str().and_then(parse_time).ok_or("start.earliest")?,
                    start_latest: match start.get("latest") {
                        Some(l) => Some(l.as_str().and_then(parse_time).ok_or("start.latest")?),
                        None => None,
                    },
                    start_loc: loc_index(&start["location"])?,
                    end: match s.get("end") {
                        Some(e) => Some((e["latest"].as_str().and_then(parse_time).ok_or("end.latest")?, loc_index(&e["location"])?)),
                        None => None,
                    },
                    breaks,
                    required_breaks,
                    reloads,
                    has_recharge: s.get("recharges").is_some(),
                });
            }
            let limits = v.get("limits");
            vehicles.push(PVehicle {
                type_id: v["typeId"].as_str().ok_or("typeId")?.to_string(),
                ids: str_list(v.get("vehicleIds")),
                profile: v["profile"]["matrix"].as_str().ok_or("profile")?.to_string(),
                scale: v["profile"].get("scale").and_then(|s| s.as_f64()).unwrap_or(1.0),
                fixed: v["costs"].get("fixed").and_then(|s| s.as_f64()).unwrap_or(0.0),
                cost_distance: v["costs"]["distance"].as_f64().ok_or("cost distance")?,
                cost_time: v["costs"]["time"].as_f64().ok_or("cost time")?,
                shifts,
                capacity: int_list(v.get("capacity")),
                skills: str_list(v.get("skills")).into_iter().collect(),
                max_distance: limits.and_then(|l| l.get("maxDistance")).and_then(|x| x.as_f64()),
                max_duration: limits.and_then(|l| l.get("maxDuration").or_else(|| l.get("shiftTime"))).and_then(|x| x.as_f64()),
                tour_size: limits.and_then(|l| l.get("tourSize")).and_then(|x| x.as_i64()),
            });
            dims = dims.max(vehicles.last().unwrap().capacity.len());
        }
        let mut relations = Vec::new();
        for r in problem["plan"].get("relations").and_then(|r| r.as_array()).into_iter().flatten() {
            relations.push(PRelation {
                kind: r["type"].as_str().ok_or("relation type")?.to_string(),
                jobs: str_list(r.get("jobs")),
                vehicle_id: r["vehicleId"].as_str().ok_or("relation vehicle")?.to_string(),
                shift_index: r.get("shiftIndex").and_then(|s| s.as_u64()).unwrap_or(0) as usize,
            });
        }
        let mut resources = HashMap::new();
        for r in problem["fleet"].get("resources").and_then(|r| r.as_array()).into_iter().flatten() {
            resources.insert(r["id"].as_str().ok_or("resource id")?.to_string(), int_list(r.get("capacity")));
        }
        let mut ms = HashMap::new();
        for m in matrices {
            if m.get("timestamp").is_some_and(|t| !t.is_null()) {
                return Err("O1 does not replay time-dependent matrices".into());
            }
            let times: Vec<f64> = m.get("travelTimes").or_else(|| m.get("durations")).and_then(|a| a.as_array()).ok_or("travelTimes")?.iter().filter_map(|x| x.as_f64()).collect();
            let dists: Vec<f64> = m["distances"].as_array().ok_or("distances")?.iter().filter_map(|x| x.as_f64()).collect();
            let size = (dists.len() as f64).sqrt().round() as usize;
            if size * size != dists.len() || times.len() != dists.len() {
                return Err("matrix is not square".into());
            }
            let errors = m.get("errorCodes").and_then(|e| e.as_array()).map(|a| a.iter().map(|x| x.as_i64().unwrap_or(0)).collect());
            let name = m.get("profile").and_then(|p| p.as_str()).unwrap_or("").to_string();
            ms.insert(name, PMatrix { size, times, dists, errors });
        }
        let objectives = problem.get("objectives");
        let has_order_objective = objectives.is_some_and(|o| objectives_contain(o, "tour-order"));
        Ok(PProblem {
            jobs,
            job_index,
            vehicles,
            relations,
            resources,
            matrices: ms,
            has_clustering: problem["plan"].get("clustering").is_some_and(|c| !c.is_null()),
            hard_order: any_order && !has_order_objective,
            dims,
            locmap: locmap.clone(),
        })
    }

    pub fn vehicle_of(&self, vehicle_id: &str) -> Option<&PVehicle> {
        self.vehicles.iter().find(|v| v.ids.iter().any(|i| i == vehicle_id))
    }
}

// ------------------------------------------------------------------------------------------------
// solution walk

#[derive(Clone, Debug)]
enum ActKind {
    Job { job: usize, task: usize },
    Break { def: usize },
    Reload { def: Option<usize> },
    Other,
}

#[derive(Clone, Debug)]
struct ActRec {
    kind: ActKind,
    stop: usize,
}

fn vec_add(a: &mut [i64], b: &[i64], sign: i64) {
    for (i, v) in b.iter().enumerate() {
        if i < a.len() {
            a[i] += sign * v;
        }
    }
}

fn fmt_t(t: f64) -> String {
    crate::timeutil::fmt_time(t.floor() as i64)
}

fn act_interval(stop_time: (i64, i64), act: &Value) -> Result<(i64, i64), String> {
    match act.get("time") {
        Some(t) if !t.is_null() => {
            let s = t["start"].as_str().and_then(parse_time).ok_or("activity time.start")?;
            let e = t["end"].as_str().and_then(parse_time).ok_or("activity time.end")?;
            Ok((s, e))
        }
        _ => Ok(stop_time),
    }
}

/// Replays the solution against the problem. `Err` = a document is structurally not what the format documents.
pub fn replay(problem: &Value, matrices: &[Value], solution: &Value) -> Result<Report, String> {
    let p = PProblem::parse(problem, matrices)?;
    replay_parsed(&p, solution)
}

pub fn replay_parsed(p: &PProblem, solution: &Value) -> Result<Report, String> {
    let mut rep = Report::default();
    let tours = solution["tours"].as_array().ok_or("solution.tours missing")?;
    let mut used_shifts: HashSet<(String, usize)> = HashSet::new();
    // job -> list of (tour index) where some activity of it appears, and per (job) consumed tasks
    let mut job_tours: HashMap<usize, BTreeSet<usize>> = HashMap::new();
    let mut job_tasks_done: HashMap<usize, Vec<usize>> = HashMap::new();
    let mut resource_use: HashMap<String, Vec<i64>> = HashMap::new();
    let mut group_tours: HashMap<String, BTreeSet<usize>> = HashMap::new();
    let mut sum_stat = StatAcc::default();

    for (ti, tour) in tours.iter().enumerate() {
        rep.tours += 1;
        replay_tour(p, ti, tour, &mut rep, &mut used_shifts, &mut job_tours, &mut job_tasks_done, &mut resource_use, &mut group_tours, &mut sum_stat)?;
        rep.cur_ctx.clear();
    }

    // ---- relations across tours (C01)
    check_relations_have_tours(p, solution, &mut rep);
    check_relation_vehicles(p, solution, &mut rep);

    // ---- shared resources (C01)
    for (rid, used) in resource_use.iter() {
        if let Some(cap) = p.resources.get(rid) {
            let over = used.iter().zip(cap.iter()).any(|(u, c)| u > c);
            let binding = used.iter().zip(cap.iter()).any(|(u, c)| c - u <= 1);
            rep.rule("shared-resource", binding);
            if over {
                // incomparable = exceeded in some but not all dimensions
                let all_over = used.iter().zip(cap.iter()).all(|(u, c)| u > c);
                rep.cur_ctx = if cap.len() > 1 && !all_over { "multi-dim-partial".into() } else { "all-dims".into() };
                rep.issue("C01", "shared-resource", format!("resource {rid}: consumed {used:?} > capacity {cap:?}"));
                rep.cur_ctx.clear();
            }
        }
    }
    // ---- groups (C01)
    for (g, ts) in group_tours.iter() {
        rep.rule("group", ts.len() == 1);
        if ts.len() > 1 {
            // a member of the group pinned to a vehicle by an `any` relation is a context of its own (known finding: the
            // solution repair force-places such a job on its vehicle without looking at the tour its group rides in)
            let pinned = p.relations.iter().any(|r| r.kind == "any" && r.jobs.iter().any(|id| p.job_index.get(id).is_some_and(|j| p.jobs[*j].group.as_deref() == Some(g.as_str()))));
            rep.cur_ctx = if pinned { "solution+member-in-any-relation".into() } else { "solution".into() };
            rep.issue("C01", "group", format!("group {g} is spread over tours {ts:?}"));
            rep.cur_ctx.clear();
        }
    }

    // ---- conservation (C02)
    let mut unassigned_ids: Vec<String> = Vec::new();
    if let Some(un) = solution.get("unassigned").and_then(|u| u.as_array()) {
        for u in un {
            let id = u["jobId"].as_str().ok_or("unassigned.jobId")?.to_string();
            let reasons = u.get("reasons").and_then(|r| r.as_array()).map_or(0, |r| r.len());
            if reasons == 0 {
                rep.issue("C02", "unassigned-without-reason", format!("job {id} is unassigned without a reason"));
            }
            for r in u.get("reasons").and_then(|r| r.as_array()).into_iter().flatten() {
                if r.get("code").and_then(|c| c.as_str()).is_none() {
                    rep.issue("C02", "unassigned-without-reason", format!("job {id}: reason without code"));
                }
            }
            unassigned_ids.push(id);
        }
    }
    let mut seen_un = HashSet::new();
    for id in unassigned_ids.iter() {
        if !seen_un.insert(id.clone()) {
            rep.issue("C02", "unassigned-duplicate", format!("job {id} is listed twice in unassigned"));
        }
        match p.job_index.get(id) {
            None => rep.issue("C02", "unknown-job", format!("unassigned job id {id} is not in the plan")),
            Some(j) => {
                if job_tours.contains_key(j) {
                    rep.issue("C02", "assigned-and-unassigned", format!("job {id} is both in a tour and in unassigned"));
                }
            }
        }
    }
    for (ji, job) in p.jobs.iter().enumerate() {
        match job_tours.get(&ji) {
            Some(ts) => {
                rep.assigned_jobs += 1;
                if ts.len() > 1 {
                    rep.issue("C02", "job-split", format!("job {} has activities in tours {ts:?}", job.id));
                }
                let done = job_tasks_done.get(&ji).cloned().unwrap_or_default();
                let mut counts = vec![0usize; job.tasks.len()];
                for t in done.iter() {
                    counts[*t] += 1;
                }
                for (t, c) in counts.iter().enumerate() {
                    if *c == 0 {
                        rep.issue("C02", "task-missing", format!("job {} task #{t} ({}) is not served", job.id, job.tasks[t].kind.as_str()));
                    } else if *c > 1 {
                        rep.issue("C02", "task-duplicated", format!("job {} task #{t} ({}) is served {c} times", job.id, job.tasks[t].kind.as_str()));
                    }
                }
            }
            None => {
                if seen_un.contains(&job.id) {
                    rep.unassigned_jobs += 1;
                } else {
                    rep.issue("C02", "job-lost", format!("job {} is neither in a tour nor in unassigned", job.id));
                }
            }
        }
    }
    rep.rule("conservation", rep.unassigned_jobs > 0);
    for v in solution.get("violations").and_then(|v| v.as_array()).into_iter().flatten() {
        // the documentation says vehicleId/shiftIndex, the writer emits vehicle_id/shift_index: both are accepted
        let vid = v.get("vehicleId").or_else(|| v.get("vehicle_id")).and_then(|x| x.as_str()).unwrap_or("");
        let si = v.get("shiftIndex").or_else(|| v.get("shift_index")).and_then(|x| x.as_u64()).unwrap_or(0) as usize;
        let ok = p.vehicle_of(vid).and_then(|veh| veh.shifts.get(si)).is_some_and(|s| !s.breaks.is_empty() || s.required_breaks > 0);
        if !ok {
            rep.issue("C02", "violation-unknown-break", format!("violations lists a break for {vid}/{si} which defines none"));
        }
    }

    // ---- overall statistic == sum of tours (C03)
    if let Some(stat) = solution.get("statistic") {
        let rd = stat["distance"].as_i64().ok_or("statistic.distance")?;
        let rt = stat["duration"].as_i64().ok_or("statistic.duration")?;
        let rc = stat["cost"].as_f64().ok_or("statistic.cost")?;
        if rd != sum_stat.distance || rt != sum_stat.duration {
            rep.issue("C03", "total-statistic", format!("overall distance/duration {rd}/{rt} != sum of tours {}/{}", sum_stat.distance, sum_stat.duration));
        }
        if (rc - sum_stat.cost).abs() > 1e-6 * rc.abs().max(1.) {
            rep.issue("C03", "total-statistic", format!("overall cost {rc} != sum of tours {}", sum_stat.cost));
        }
        let times = &stat["times"];
        for (k, v) in [("driving", sum_stat.driving), ("serving", sum_stat.serving), ("waiting", sum_stat.waiting), ("break", sum_stat.brk)] {
            let r = times[k].as_i64().ok_or("statistic.times")?;
            if r != v {
                rep.issue("C03", "total-statistic", format!("overall times.{k} {r} != sum of tours {v}"));
            }
        }
        rep.rule("total-statistic", true);
    } else {
        return Err("solution.statistic missing".into());
    }
    Ok(rep)
}

#[derive(Default)]
struct StatAcc {
    cost: f64,
    distance: i64,
    duration: i64,
    driving: i64,
    serving: i64,
    waiting: i64,
    brk: i64,
}

#[allow(clippy::too_many_arguments)]
fn replay_tour(
    p: &PProblem,
    ti: usize,
    tour: &Value,
    rep: &mut Report,
    used_shifts: &mut HashSet<(String, usize)>,
    job_tours: &mut HashMap<usize, BTreeSet<usize>>,
    job_tasks_done: &mut HashMap<usize, Vec<usize>>,
    resource_use: &mut HashMap<String, Vec<i64>>,
    group_tours: &mut HashMap<String, BTreeSet<usize>>,
    sum_stat: &mut StatAcc,
) -> Result<(), String> {
    let vid = tour["vehicleId"].as_str().ok_or("tour.vehicleId")?;
    let type_id = tour["typeId"].as_str().ok_or("tour.typeId")?;
    let si = tour.get("shiftIndex").and_then(|s| s.as_u64()).unwrap_or(0) as usize;
    let stat = &tour["statistic"];
    // statistic goes to the sum whatever else happens
    sum_stat.cost += stat["cost"].as_f64().ok_or("tour.statistic.cost")?;
    sum_stat.distance += stat["distance"].as_i64().ok_or("tour.statistic.distance")?;
    sum_stat.duration += stat["duration"].as_i64().ok_or("tour.statistic.duration")?;
    sum_stat.driving += stat["times"]["driving"].as_i64().ok_or("times.driving")?;
    sum_stat.serving += stat["times"]["serving"].as_i64().ok_or("times.serving")?;
    sum_stat.waiting += stat["times"]["waiting"].as_i64().ok_or("times.waiting")?;
    sum_stat.brk += stat["times"]["break"].as_i64().ok_or("times.break")?;

    let Some(veh) = p.vehicle_of(vid) else {
        rep.issue("C02", "unknown-vehicle", format!("tour {ti} names vehicle {vid} which is not in the fleet"));
        return Ok(());
    };
    if veh.type_id != type_id {
        rep.issue("C02", "unknown-vehicle", format!("tour {ti}: vehicle {vid} belongs to type {} but tour says {type_id}", veh.type_id));
    }
    let Some(shift) = veh.shifts.get(si) else {
        rep.issue("C02", "unknown-shift", format!("tour {ti}: vehicle {vid} has no shift {si}"));
        return Ok(());
    };
    if !used_shifts.insert((vid.to_string(), si)) {
        rep.issue("C02", "shift-used-twice", format!("vehicle {vid} shift {si} drives two tours"));
    }
    let Some(m) = p.matrices.get(&veh.profile).or_else(|| if p.matrices.len() == 1 { p.matrices.values().next() } else { None }) else {
        return Err(format!("no matrix for profile {}", veh.profile));
    };
    let fractional = veh.scale.fract() != 0.0;
    let tol: f64 = if fractional { 1.0 } else { 0.0 };
    rep.cur_ctx = {
        let mut c: Vec<&str> = Vec::new();
        if !shift.reloads.is_empty() {
            c.push("reload-shift");
        }
        if veh.max_duration.is_some() {
            c.push("limit-duration");
        }
        if c.is_empty() { "plain".to_string() } else { c.join("+") }
    };
    let stops = tour["stops"].as_array().ok_or("tour.stops")?;
    if stops.is_empty() {
        rep.issue("C02", "empty-tour", format!("tour {ti} has no stops"));
        return Ok(());
    }
    let dims = p.dims;
    let cap: Vec<i64> = (0..dims).map(|k| veh.capacity.get(k).copied().unwrap_or(0)).collect();
    // stops produced by vicinity clustering (parking time or commute legs): issues raised there get their own context,
    // clustering is documented as experimental and merges jobs before the search
    let clustered_stops: HashSet<usize> = stops
        .iter()
        .enumerate()
        .filter(|(_, s)| s.get("parking").is_some_and(|p| !p.is_null()) || s["activities"].as_array().is_some_and(|a| a.iter().any(|x| x.get("commute").is_some_and(|c| !c.is_null()))))
        .map(|(i, _)| i)
        .collect();

    // ---------------- pass 1: walk stops/activities, replay time and distance, match activities
    let mut acts: Vec<ActRec> = Vec::new();
    let mut t: f64 = 0.0; // my clock
    let mut t_dep: f64 = 0.0;
    let mut cur_loc = shift.start_loc;
    let mut dist: i64 = 0;
    let mut driving = 0i64;
    let mut serving = 0i64;
    let mut waiting = 0i64;
    let mut brk = 0i64;
    let mut legs = 0u64;
    let mut waits = 0u64;
    let mut partial = false;
    // document-only accumulators (used for the weak statistic rules of partially replayed tours)
    let mut doc_break = 0i64;
    let mut doc_acts = 0i64;
    let mut break_defs_used: Vec<bool> = vec![false; shift.breaks.len()];
    let mut reload_defs_used: Vec<bool> = vec![false; shift.reloads.len()];
    let mut customer_activities = 0i64;
    let mut tour_job_ids: Vec<String> = Vec::new();
    let mut prev_act_loc = shift.start_loc;
    let mut seen_arrival = false;
    let mut order_seq: Vec<(f64, String)> = Vec::new();
    let mut compat_seen: BTreeSet<String> = BTreeSet::new();
    let mut stop_loads: Vec<Option<Vec<i64>>> = Vec::new();

    for (sidx, stop) in stops.iter().enumerate() {
        let st_arr = stop["time"]["arrival"].as_str().and_then(parse_time).ok_or("stop.time.arrival")?;
        let st_dep = stop["time"]["departure"].as_str().and_then(parse_time).ok_or("stop.time.departure")?;
        stop_loads.push(stop.get("load").map(|l| int_list(Some(l))));
        let activities = stop["activities"].as_array().ok_or("stop.activities")?;
        for a in activities.iter() {
            doc_acts += 1;
            if a["type"].as_str() == Some("break") {
                let (bs, be) = match a.get("time").filter(|t| !t.is_null()) {
                    Some(t) => (t["start"].as_str().and_then(parse_time).ok_or("activity.time.start")?, t["end"].as_str().and_then(parse_time).ok_or("activity.time.end")?),
                    None => (st_arr, st_dep),
                };
                doc_break += be - bs;
            }
        }
        let Some(loc_v) = stop.get("location") else {
            // transit stop: required break (reserved time) - replayed only partially
            rep.partial.insert("transit-stop".into());
            partial = true;
            t = st_dep as f64;
            continue;
        };
        let loc = p.locmap.get(loc_v)?;
        // a required break rendered inside a point stop stretches the activity it interrupts, which is listed before it: the whole
        // stop is replayed partially (a shift has either required or optional breaks in this workload)
        if shift.required_breaks > 0 && shift.breaks.is_empty() && activities.iter().any(|a| a["type"].as_str() == Some("break")) {
            rep.partial.insert("required-break".into());
            partial = true;
        }
        if sidx == 0 {
            if loc != shift.start_loc {
                rep.issue("C01", "shift-start-location", format!("tour {ti} starts at location {loc}, shift start is {}", shift.start_loc));
            }
            let first = activities.first().ok_or("first stop without activities")?;
            if first["type"].as_str() != Some("departure") {
                rep.issue("C02", "no-departure", format!("tour {ti}: first activity is {} not departure", first["type"]));
            }
            // true departure: the departure activity's own end when the stop also holds jobs
            let (_, dep_end) = act_interval((st_arr, st_dep), first)?;
            let dep_time = if activities.len() > 1 { dep_end } else { st_dep };
            t = dep_time as f64;
            t_dep = t;
            rep.rule("shift-start", dep_time == shift.start_earliest || shift.start_latest == Some(dep_time));
            if dep_time < shift.start_earliest {
                rep.issue("C01", "shift-start", format!("tour {ti} departs {} before start.earliest {}", fmt_t(t), crate::timeutil::fmt_time(shift.start_earliest)));
            }
            if let Some(latest) = shift.start_latest {
                if dep_time > latest {
                    rep.issue("C01", "shift-start", format!("tour {ti} departs {} after start.latest {}", fmt_t(t), crate::timeutil::fmt_time(latest)));
                }
            }
            if st_arr > st_dep {
                rep.issue("C03", "stop-time", format!("tour {ti} stop 0: arrival after departure"));
            }
        } else {
            // a leg
            if loc >= m.size || cur_loc >= m.size {
                return Err(format!("location {loc} outside matrix of size {}", m.size));
            }
            let d = m.dists[cur_loc * m.size + loc];
            let tt = m.times[cur_loc * m.size + loc] * veh.scale;
            if let Some(err) = &m.errors {
                let unreachable = err[cur_loc * m.size + loc] > 0;
                rep.rule("reachable", unreachable);
                // (not judged in tours with clustered stops: their legs and distances are not replayed, see below)
                if unreachable && clustered_stops.is_empty() {
                    rep.issue("C01", "reachable", format!("tour {ti} drives leg {cur_loc}->{loc} which the matrix flags unreachable"));
                }
            }
            legs += 1;
            dist += d as i64;
            driving += tt as i64;
            t += tt;
            if !partial {
                if !time_matches(st_arr, t, tol) {
                    rep.issue("C03", "arrival", format!("tour {ti} stop {sidx}: reported arrival {} but replay gives {}", crate::timeutil::fmt_time(st_arr), fmt_t(t)));
                }
                let rd = stop["distance"].as_i64().ok_or("stop.distance")?;
                if rd != dist {
                    rep.issue("C03", "stop-distance", format!("tour {ti} stop {sidx}: reported cumulative distance {rd}, replay {dist}"));
                }
            } else {
                // re-synchronise after a partially replayed segment
                t = st_arr as f64;
                dist = stop["distance"].as_i64().unwrap_or(dist);
            }
            cur_loc = loc;
        }

        for (aidx, act) in activities.iter().enumerate() {
            rep.activities += 1;
            let ty = act["type"].as_str().ok_or("activity.type")?;
            let job_id = act["jobId"].as_str().ok_or("activity.jobId")?;
            let a_loc = match act.get("location") {
                Some(l) if !l.is_null() => p.locmap.get(l)?,
                _ => loc,
            };
            let tag = act.get("jobTag").and_then(|t| t.as_str());
            let (r_start, r_end) = act_interval((st_arr, st_dep), act)?;
            if act.get("commute").is_some_and(|c| !c.is_null()) {
                rep.partial.insert("commute".into());
                partial = true;
            }
            if a_loc != loc && !partial {
                if p.has_clustering {
                    rep.partial.insert("commute".into());
                    partial = true;
                } else {
                    rep.issue("C03", "activity-location", format!("tour {ti} stop {sidx}: activity {job_id} is at {a_loc} but the stop is at {loc}"));
                }
            }
            match ty {
                "departure" => {
                    if sidx != 0 || aidx != 0 {
                        rep.issue("C02", "departure-misplaced", format!("tour {ti}: departure at stop {sidx} activity {aidx}"));
                    }
                    acts.push(ActRec { kind: ActKind::Other, stop: sidx });
                    continue;
                }
                "arrival" => {
                    seen_arrival = true;
                    // (a required break taken at the arrival time is rendered after the arrival activity in the last stop)
                    if sidx != stops.len() - 1 || (aidx != activities.len() - 1 && shift.required_breaks == 0) {
                        rep.issue("C02", "arrival-misplaced", format!("tour {ti}: arrival at stop {sidx} activity {aidx}"));
                    }
                    match shift.end {
                        Some((latest, end_loc)) => {
                            if a_loc != end_loc {
                                rep.issue("C01", "shift-end-location", format!("tour {ti} ends at {a_loc}, shift end is {end_loc}"));
                            }
                            // binding: the tour ends in the last tenth of the time it had
                            rep.rule("shift-end", (latest as f64 - t) <= ((latest as f64 - t_dep) * 0.1).max(1.0));
                            if t > latest as f64 + tol {
                                rep.issue("C01", "shift-end", format!("tour {ti} arrives {} after end.latest {}", fmt_t(t), crate::timeutil::fmt_time(latest)));
                            }
                        }
                        None => rep.issue("C01", "shift-end-location", format!("tour {ti} has an arrival although the shift is open-ended")),
                    }
                    acts.push(ActRec { kind: ActKind::Other, stop: sidx });
                    continue;
                }
                _ => {}
            }
            let arrival = t;
            // candidate (duration, windows, kind) options for this activity
            let mut options: Vec<(f64, Vec<(i64, i64)>, ActKind)> = Vec::new();
            // places at the same location whose tag is NOT the reported one (used to classify a misreported tag)
            let mut siblings: Vec<(f64, Vec<(i64, i64)>, ActKind)> = Vec::new();
            let mut place_known = false;
            match ty {
                "pickup" | "delivery" | "replacement" | "service" => {
                    customer_activities += 1;
                    let Some(&ji) = p.job_index.get(job_id) else {
                        rep.issue("C02", "unknown-job", format!("tour {ti}: activity of job {job_id} which is not in the plan"));
                        acts.push(ActRec { kind: ActKind::Other, stop: sidx });
                        continue;
                    };
                    let job = &p.jobs[ji];
                    job_tours.entry(ji).or_default().insert(ti);
                    tour_job_ids.push(job.id.clone());
                    let done = job_tasks_done.entry(ji).or_default();
                    let mut any_kind = false;
                    for (tix, task) in job.tasks.iter().enumerate() {
                        if task.kind.as_str() != ty {
                            continue;
                        }
                        any_kind = true;
                        if done.contains(&tix) {
                            continue;
                        }
                        for place in task.places.iter() {
                            if place.loc == a_loc && place.tag.as_deref() == tag {
                                place_known = true;
                                options.push((place.duration, place.times.clone(), ActKind::Job { job: ji, task: tix }));
                            } else if place.loc == a_loc {
                                siblings.push((place.duration, place.times.clone(), ActKind::Job { job: ji, task: tix }));
                            }
                        }
                    }
                    if !any_kind {
                        rep.issue("C02", "unknown-task", format!("tour {ti}: job {job_id} has no task of type {ty}"));
                        acts.push(ActRec { kind: ActKind::Other, stop: sidx });
                        continue;
                    }
                    if options.is_empty() && !siblings.is_empty() {
                        // a place at that location exists but carries another tag: judged below as a tag issue
                        place_known = true;
                    } else if options.is_empty() {
                        // either all tasks of that kind consumed (duplicate) or no place matches location+tag
                        let all_done = job.tasks.iter().enumerate().filter(|(_, t)| t.kind.as_str() == ty).all(|(i, _)| done.contains(&i));
                        if all_done {
                            // count the duplicate against the first task of that kind
                            let tix = job.tasks.iter().position(|t| t.kind.as_str() == ty).unwrap();
                            done.push(tix);
                        } else {
                            rep.issue(
                                "C03",
                                "place-tag",
                                format!("tour {ti}: {ty} of {job_id} reported at location {a_loc} with tag {tag:?}: no place of an unserved {ty} task has that location and tag"),
                            );
                            // still account the task (first unserved of that kind) so that conservation is judged separately
                            if let Some(tix) = job.tasks.iter().enumerate().position(|(i, t)| t.kind.as_str() == ty && !done.contains(&i)) {
                                done.push(tix);
                                acts.push(ActRec { kind: ActKind::Job { job: ji, task: tix }, stop: sidx });
                                t = r_end as f64;
                                prev_act_loc = a_loc;
                                continue;
                            }
                        }
                        acts.push(ActRec { kind: ActKind::Other, stop: sidx });
                        t = r_end as f64;
                        prev_act_loc = a_loc;
                        continue;
                    }
                    // skills / compatibility / group bookkeeping (once per activity is harmless)
                    let all_ok = job.all_of.iter().all(|s| veh.skills.contains(s));
                    let one_ok = job.one_of.is_empty() || job.one_of.iter().any(|s| veh.skills.contains(s));
                    let none_ok = job.none_of.iter().all(|s| !veh.skills.contains(s));
                    if !job.all_of.is_empty() || !job.one_of.is_empty() || !job.none_of.is_empty() {
                        rep.rule("skills", true);
                        if !(all_ok && one_ok && none_ok) {
                            rep.issue("C01", "skills", format!("tour {ti}: job {job_id} (allOf {:?} oneOf {:?} noneOf {:?}) on vehicle {vid} with skills {:?}", job.all_of, job.one_of, job.none_of, veh.skills));
                        }
                    }
                    if let Some(c) = &job.compat {
                        compat_seen.insert(c.clone());
                    }
                    if let Some(g) = &job.group {
                        group_tours.entry(g.clone()).or_default().insert(ti);
                    }
                }
                "break" => {
                    for (bi, b) in shift.breaks.iter().enumerate() {
                        if break_defs_used[bi] {
                            continue;
                        }
                        let win = match b.time {
                            BreakTime::Window(s, e) => (s, e),
                            BreakTime::Offset(s, e) => ((t_dep + s).floor() as i64, (t_dep + e).ceil() as i64),
                        };
                        for bp in b.places.iter() {
                            let loc_ok = match bp.loc {
                                Some(l) => l == a_loc,
                                // with commute (clustering) the previous activity may sit away from the stop: not judged then
                                None => a_loc == prev_act_loc || partial,
                            };
                            if loc_ok && bp.tag.as_deref() == tag {
                                place_known = true;
                                options.push((bp.duration, vec![win], ActKind::Break { def: bi }));
                            } else if loc_ok {
                                siblings.push((bp.duration, vec![win], ActKind::Break { def: bi }));
                            }
                        }
                    }
                    if shift.breaks.is_empty() && shift.required_breaks == 0 {
                        rep.issue("C02", "undefined-break", format!("tour {ti}: break activity but shift {vid}/{si} defines no break"));
                        acts.push(ActRec { kind: ActKind::Other, stop: sidx });
                        t = r_end as f64;
                        continue;
                    }
                    if shift.required_breaks > 0 && options.is_empty() {
                        // a required break rendered inside a point stop: partially replayed
                        rep.partial.insert("required-break".into());
                        partial = true;
                        acts.push(ActRec { kind: ActKind::Other, stop: sidx });
                        brk += r_end - r_start;
                        t = r_end as f64;
                        continue;
                    }
                }
                "reload" => {
                    for (ri, r) in shift.reloads.iter().enumerate() {
                        if reload_defs_used[ri] {
                            continue;
                        }
                        if r.loc == a_loc && r.tag.as_deref() == tag {
                            place_known = true;
                            options.push((r.duration, r.times.clone(), ActKind::Reload { def: Some(ri) }));
                        } else if r.loc == a_loc {
                            siblings.push((r.duration, r.times.clone(), ActKind::Reload { def: Some(ri) }));
                        }
                    }
                    if shift.reloads.is_empty() {
                        rep.issue("C02", "undefined-reload", format!("tour {ti}: reload activity but shift {vid}/{si} defines no reload"));
                        acts.push(ActRec { kind: ActKind::Reload { def: None }, stop: sidx });
                        t = r_end as f64;
                        continue;
                    }
                }
                other => {
                    // recharge or anything else: partially replayed
                    rep.partial.insert(format!("activity-type:{other}"));
                    partial = true;
                    acts.push(ActRec { kind: ActKind::Other, stop: sidx });
                    t = r_end as f64;
                    prev_act_loc = a_loc;
                    continue;
                }
            }
            if !place_known && !siblings.is_empty() {
                place_known = true;
            }
            if !place_known {
                // does it match a definition which another activity of this tour already consumed? then it is a duplicate
                let duplicate = match ty {
                    "break" => shift.breaks.iter().enumerate().any(|(bi, b)| {
                        break_defs_used[bi]
                            && b.places.iter().any(|bp| {
                                (match bp.loc {
                                    Some(l) => l == a_loc,
                                    None => a_loc == prev_act_loc,
                                }) && bp.tag.as_deref() == tag
                            })
                    }),
                    _ => shift.reloads.iter().enumerate().any(|(ri, r)| reload_defs_used[ri] && r.loc == a_loc && r.tag.as_deref() == tag),
                };
                let rule = match (ty, duplicate) {
                    ("break", true) => "break-duplicated",
                    ("break", false) => "break-unmatched",
                    (_, true) => "reload-duplicated",
                    (_, false) => "reload-unmatched",
                };
                let saved = rep.cur_ctx.clone();
                rep.cur_ctx = "special-stop".into();
                rep.issue("C02", rule, format!("tour {ti}: {ty} at location {a_loc} tag {tag:?} matches no unused {ty} definition of shift {vid}/{si} (the shift defines {} break(s), {} reload(s))", shift.breaks.len(), shift.reloads.len()));
                rep.cur_ctx = saved;
                acts.push(ActRec { kind: if ty == "reload" { ActKind::Reload { def: None } } else { ActKind::Other }, stop: sidx });
                // keep the statistics replay in step with the reported interval so that this issue is reported once
                let w = (r_start as f64 - arrival).max(0.0);
                if w > 0.0 {
                    waits += 1;
                }
                waiting += w as i64;
                if ty == "break" {
                    brk += r_end - r_start;
                } else {
                    serving += r_end - r_start;
                }
                t = r_end as f64;
                prev_act_loc = a_loc;
                continue;
            }
            // picks the (place, window) whose replayed (start, end) is closest to the reported interval (within the rounding unit)
            let choose = |options: &[(f64, Vec<(i64, i64)>, ActKind)]| -> (Option<(f64, f64, f64, ActKind, bool)>, bool, f64) {
                let mut best: Option<(f64, f64, f64, ActKind, bool)> = None; // (start, end, duration, kind, binding)
                let mut best_err = f64::MAX;
                let mut tw_feasible = false;
                for (duration, windows, kind) in options.iter() {
                    let ws: Vec<(f64, f64)> = if windows.is_empty() { vec![(f64::MIN, f64::MAX)] } else { windows.iter().map(|(s, e)| (*s as f64, *e as f64)).collect() };
                    for (ws_, we_) in ws {
                        if arrival > we_ + tol {
                            continue;
                        }
                        tw_feasible = true;
                        let start = arrival.max(ws_);
                        let end = start + duration;
                        let ok_s = partial || time_matches(r_start, start, tol);
                        let ok_e = partial || time_matches(r_end, end, tol);
                        let err = (r_start as f64 - start).abs() + (r_end as f64 - end).abs();
                        if ok_s && ok_e && err < best_err {
                            best_err = err;
                            best = Some((start, end, *duration, kind.clone(), we_ - arrival <= 1.0));
                        }
                    }
                }
                (best, tw_feasible, best_err)
            };
            let (mut best, tw_feasible, best_err) = choose(&options);
            if (best.is_none() || best_err >= 1.0) && !siblings.is_empty() && !partial {
                let (sib, _, sib_err) = choose(&siblings);
                if sib.is_some() && sib_err < best_err {
                    // the reported interval is explained (better) by another place of the same task at the same location:
                    // the activity carries the tag of a place which was not the one used
                    let saved = rep.cur_ctx.clone();
                    rep.cur_ctx = match ty {
                        "break" => {
                            let offset = matches!(&sib, Some((_, _, _, ActKind::Break { def }, _)) if matches!(shift.breaks[*def].time, BreakTime::Offset(..)));
                            if offset { "break-offset-time".into() } else { "break".into() }
                        }
                        "reload" => "reload".into(),
                        _ => "job".into(),
                    };
                    let rule = if !options.is_empty() {
                        "place-tag-sibling"
                    } else if tag.is_none() {
                        "place-tag-missing"
                    } else {
                        "place-tag-of-other-place"
                    };
                    rep.issue(
                        "C03",
                        rule,
                        format!("tour {ti}: {ty} {job_id} at {a_loc}: reported tag {tag:?} but interval [{} .. {}] is the one of a sibling place with another tag (same location, other duration/window)", crate::timeutil::fmt_time(r_start), crate::timeutil::fmt_time(r_end)),
                    );
                    rep.cur_ctx = saved;
                    best = sib;
                }
            }
            let rule_name = match ty {
                "break" => "break-window",
                "reload" => "reload-window",
                _ => "time-window",
            };
            match best {
                Some((start, end, duration, kind, binding)) => {
                    rep.rule(rule_name, binding);
                    let w = start - arrival;
                    if w > 0.0 {
                        waits += 1;
                    }
                    waiting += w as i64;
                    if ty == "break" {
                        brk += duration as i64;
                    } else {
                        serving += duration as i64;
                    }
                    match &kind {
                        ActKind::Job { job, task } => {
                            job_tasks_done.entry(*job).or_default().push(*task);
                            let o = p.jobs[*job].tasks[*task].order.map(|o| o as f64).unwrap_or(f64::INFINITY);
                            order_seq.push((o, job_id.to_string()));
                        }
                        ActKind::Break { def } => break_defs_used[*def] = true,
                        ActKind::Reload { def: Some(ri) } => reload_defs_used[*ri] = true,
                        _ => {}
                    }
                    acts.push(ActRec { kind, stop: sidx });
                    t = if partial { r_end as f64 } else { end };
                }
                None => {
                    if !tw_feasible {
                        rep.rule(rule_name, true);
                        let saved = rep.cur_ctx.clone();
                        if clustered_stops.contains(&sidx) {
                            rep.cur_ctx = "clustered-stop".into();
                        }
                        rep.issue(
                            "C01",
                            rule_name,
                            format!("tour {ti}: {ty} {job_id} at {a_loc}: replayed arrival {} is after the end of every time window of the matching place(s)", fmt_t(arrival)),
                        );
                        rep.cur_ctx = saved;
                    } else {
                        rep.issue(
                            "C03",
                            "activity-time",
                            format!(
                                "tour {ti}: {ty} {job_id} at {a_loc} tag {tag:?}: reported [{} .. {}], replay arrival {} gives no matching (start,end) for any place/window with that location+tag",
                                crate::timeutil::fmt_time(r_start),
                                crate::timeutil::fmt_time(r_end),
                                fmt_t(arrival)
                            ),
                        );
                    }
                    // keep going with the reported end; account the task so that conservation is judged separately
                    let kind = options.first().or(siblings.first()).map(|o| o.2.clone()).unwrap_or(ActKind::Other);
                    if let ActKind::Job { job, task } = &kind {
                        job_tasks_done.entry(*job).or_default().push(*task);
                    }
                    acts.push(ActRec { kind, stop: sidx });
                    t = r_end as f64;
                }
            }
            prev_act_loc = a_loc;
        }
        // stop departure == end of its last activity
        if sidx > 0 && !partial && !time_matches(st_dep, t, tol) {
            rep.issue("C03", "departure", format!("tour {ti} stop {sidx}: reported departure {} but replay gives {}", crate::timeutil::fmt_time(st_dep), fmt_t(t)));
        }
        if st_arr > st_dep {
            rep.issue("C03", "stop-time", format!("tour {ti} stop {sidx}: arrival after departure"));
        }
    }
    let t_end = t;
    if shift.end.is_some() && !seen_arrival {
        rep.issue("C01", "shift-end-location", format!("tour {ti}: closed shift but the tour has no arrival activity"));
    }
    if customer_activities == 0 {
        // what the tour holds instead of a job decides the finding: nothing at all, or only conditional stops
        let mut kinds: Vec<&str> = stops
            .iter()
            .flat_map(|s| s["activities"].as_array().into_iter().flatten())
            .filter_map(|a| a["type"].as_str())
            .filter(|t| !matches!(*t, "departure" | "arrival"))
            .collect();
        kinds.sort();
        kinds.dedup();
        let saved = std::mem::replace(&mut rep.cur_ctx, if kinds.is_empty() { "empty".to_string() } else { format!("only:{}", kinds.join("+")) });
        rep.issue("C02", "tour-without-job", format!("tour {ti} ({vid}/{si}) serves no job"));
        rep.cur_ctx = saved;
    }
    rep.tour_jobs.push((vid.to_string(), si, tour_job_ids.clone()));

    // ---------------- pass 2: loads per reload interval
    // interval boundaries = positions of reload activities
    let mut intervals: Vec<(usize, usize)> = Vec::new(); // [start, end) in acts
    let mut s = 0;
    for (i, a) in acts.iter().enumerate() {
        if matches!(a.kind, ActKind::Reload { .. }) {
            intervals.push((s, i));
            s = i;
        }
    }
    intervals.push((s, acts.len()));
    let task_of = |a: &ActRec| -> Option<(&PJob, &PTask)> {
        match a.kind {
            ActKind::Job { job, task } => Some((&p.jobs[job], &p.jobs[job].tasks[task])),
            _ => None,
        }
    };
    let mut load = vec![0i64; dims];
    let mut computed_stop_load: BTreeMap<usize, Vec<i64>> = BTreeMap::new();
    let mut max_load = vec![0i64; dims];
    for (k, (is, ie)) in intervals.iter().enumerate() {
        // static deliveries of this interval are loaded at its start; static pickups of the previous one are unloaded
        let mut static_deliv = vec![0i64; dims];
        let mut static_pick = vec![0i64; dims];
        for a in &acts[*is..*ie] {
            if let Some((job, task)) = task_of(a) {
                match task.kind {
                    TaskKind::Delivery if job.is_static => vec_add(&mut static_deliv, &task.demand, 1),
                    TaskKind::Pickup if job.is_static => vec_add(&mut static_pick, &task.demand, 1),
                    TaskKind::Replacement => {
                        vec_add(&mut static_deliv, &task.demand, 1);
                        vec_add(&mut static_pick, &task.demand, 1);
                    }
                    _ => {}
                }
            }
        }
        vec_add(&mut load, &static_deliv, 1);
        if k > 0 {
            // the reload activity itself opens the interval
            if let ActKind::Reload { def: Some(ri) } = acts[*is].kind {
                if let Some(rid) = &shift.reloads[ri].resource {
                    let e = resource_use.entry(rid.clone()).or_insert_with(|| vec![0; dims]);
                    vec_add(e, &static_deliv, 1);
                }
            }
        }
        for a in &acts[*is..*ie] {
            if let Some((job, task)) = task_of(a) {
                match task.kind {
                    TaskKind::Delivery => vec_add(&mut load, &task.demand, -1),
                    TaskKind::Pickup => vec_add(&mut load, &task.demand, 1),
                    TaskKind::Replacement | TaskKind::Service => {}
                }
                let _ = job;
            }
            for d in 0..dims {
                max_load[d] = max_load[d].max(load[d]);
            }
            let over = (0..dims).any(|d| load[d] > cap[d]);
            let under = (0..dims).any(|d| load[d] < 0);
            let binding = (0..dims).any(|d| cap[d] - load[d] <= 1);
            rep.rule("capacity", binding);
            if over {
                let saved = rep.cur_ctx.clone();
                if clustered_stops.contains(&a.stop) {
                    rep.cur_ctx = "clustered-stop".into();
                }
                rep.issue("C01", "capacity", format!("tour {ti}: load {load:?} exceeds capacity {cap:?} after an activity at stop {}", a.stop));
                rep.cur_ctx = saved;
            }
            if under {
                rep.issue("C01", "capacity-negative", format!("tour {ti}: load {load:?} is negative after an activity at stop {}", a.stop));
            }
            computed_stop_load.insert(a.stop, load.clone());
        }
        // end of interval: static pickups are unloaded
        vec_add(&mut load, &static_pick, -1);
        if k + 1 < intervals.len() {
            // the load reported at the reload stop already contains the next interval's deliveries: handled by the next loop round
        }
    }
    // the interval-start load has to fit as well (it is the load while leaving the depot/reload)
    // (covered: computed_stop_load of the departure/reload activity includes static deliveries)
    if !partial {
        for (sidx, reported) in stop_loads.iter().enumerate() {
            let Some(reported) = reported else { continue };
            let Some(mine) = computed_stop_load.get(&sidx) else { continue };
            // the arrival stop reports zero load by convention
            let is_last_closed = sidx == stops.len() - 1 && seen_arrival;
            let expect: Vec<i64> = if is_last_closed { vec![0; dims] } else { mine.clone() };
            let rep_norm: Vec<i64> = (0..dims).map(|d| reported.get(d).copied().unwrap_or(0)).collect();
            if rep_norm != expect {
                rep.issue("C03", "stop-load", format!("tour {ti} stop {sidx}: reported load {reported:?}, replay {expect:?}"));
            }
        }
        rep.rule("stop-load", true);
    }

    // ---------------- tour level rules
    if let Some(md) = veh.max_distance {
        rep.rule("max-distance", md - dist as f64 <= (md * 0.1).max(1.0)); // binding: within a tenth of the limit
        // tours with clustered stops: the stop sequence and the reported distances do not determine the driven distance
        // (commute legs, cumulative distances that decrease), so distance / duration limits and reachability are not judged
        if dist as f64 > md + 1e-9 && clustered_stops.is_empty() {
            rep.issue("C01", "max-distance", format!("tour {ti}: distance {dist} > maxDistance {md}"));
        }
    }
    if let Some(md) = veh.max_duration {
        let dur = t_end - t_dep;
        rep.rule("max-duration", md - dur <= (md * 0.1).max(1.0));
        if dur > md + tol + 1e-9 && clustered_stops.is_empty() {
            rep.issue("C01", "max-duration", format!("tour {ti}: duration {dur} > maxDuration {md}"));
        }
    }
    if let Some(ts) = veh.tour_size {
        rep.rule("tour-size", ts - customer_activities <= 0);
        if customer_activities > ts {
            let saved = rep.cur_ctx.clone();
            if !clustered_stops.is_empty() {
                rep.cur_ctx = "tour-with-clustered-stops".into();
            }
            rep.issue("C01", "tour-size", format!("tour {ti}: {customer_activities} job activities > tourSize {ts}"));
            rep.cur_ctx = saved;
        }
    }
    if !compat_seen.is_empty() {
        rep.rule("compatibility", true);
        if compat_seen.len() > 1 {
            rep.issue("C01", "compatibility", format!("tour {ti} mixes compatibility classes {compat_seen:?}"));
        }
    }
    if p.hard_order {
        rep.rule("order", order_seq.iter().any(|o| o.0.is_finite()));
        for w in order_seq.windows(2) {
            if w[0].0 > w[1].0 {
                rep.issue("C01", "order", format!("tour {ti}: task of {} (order {}) is served before task of {} (order {})", w[0].1, w[0].0, w[1].1, w[1].0));
                break;
            }
        }
    }
    // pickups before deliveries/other tasks inside multi jobs (C02)
    {
        let mut seen_non_pickup: HashSet<usize> = HashSet::new();
        for a in acts.iter() {
            if let ActKind::Job { job, task } = a.kind {
                let j = &p.jobs[job];
                let has_pickup = j.tasks.iter().any(|t| t.kind == TaskKind::Pickup);
                if !has_pickup || j.tasks.len() < 2 {
                    continue;
                }
                if j.tasks[task].kind == TaskKind::Pickup {
                    if seen_non_pickup.contains(&job) {
                        rep.issue("C02", "pickup-after-delivery", format!("tour {ti}: job {} has a pickup after one of its deliveries/services", j.id));
                    }
                } else {
                    seen_non_pickup.insert(job);
                }
            }
        }
    }
    // relations (C01)
    for r in p.relations.iter().filter(|r| r.vehicle_id == vid && r.shift_index == si) {
        check_relation(r, &tour_job_ids_with_specials(stops), ti, rep);
    }

    // ---------------- statistics (C03)
    if !partial {
        let r_dist = stat["distance"].as_i64().unwrap_or(-1);
        let r_dur = stat["duration"].as_i64().unwrap_or(-1);
        if r_dist != dist {
            rep.issue("C03", "tour-distance", format!("tour {ti}: reported distance {r_dist}, replay {dist}"));
        }
        let my_dur = t_end - t_dep;
        if (r_dur as f64 - my_dur).abs() > 1.0 + tol + 1e-9 {
            rep.issue("C03", "tour-duration", format!("tour {ti}: reported duration {r_dur}, replay {my_dur}"));
        }
        let times = &stat["times"];
        let (rd, rs, rw, rb) = (times["driving"].as_i64().unwrap_or(-1), times["serving"].as_i64().unwrap_or(-1), times["waiting"].as_i64().unwrap_or(-1), times["break"].as_i64().unwrap_or(-1));
        let leg_tol = if fractional { legs as i64 + 1 } else { 0 };
        let wait_tol = if fractional { waits as i64 + 1 } else { 0 };
        if (rd - driving).abs() > leg_tol {
            rep.issue("C03", "times-driving", format!("tour {ti}: reported driving {rd}, replay {driving}"));
        }
        if rs != serving {
            rep.issue("C03", "times-serving", format!("tour {ti}: reported serving {rs}, replay {serving}"));
        }
        if (rw - waiting).abs() > wait_tol {
            rep.issue("C03", "times-waiting", format!("tour {ti}: reported waiting {rw}, replay {waiting}"));
        }
        if rb != brk {
            rep.issue("C03", "times-break", format!("tour {ti}: reported break {rb}, replay {brk}"));
        }
        let r_cost = stat["cost"].as_f64().unwrap_or(f64::NAN);
        let my_cost = veh.fixed + dist as f64 * veh.cost_distance + my_dur * veh.cost_time;
        let ctol = 1e-6 * my_cost.abs().max(1.0) + if fractional { veh.cost_time * 1.0 } else { 0.0 };
        if !((r_cost - my_cost).abs() <= ctol) {
            rep.issue("C03", "tour-cost", format!("tour {ti}: reported cost {r_cost}, fixed + distance*cd + duration*ct = {my_cost}"));
        }
        rep.rule("tour-statistic", true);
    } else {
        // Partially replayed tour (required break / recharge / commute): the times are not recomputed from the matrices, but the
        // statistic still has to agree with the reported visiting order and times of the document itself:
        //  (W1) duration = arrival at the last stop - departure from the first stop
        //  (W2) the driving/serving/waiting/break/commuting/parking split adds up to the duration (each term is truncated once per activity)
        //  (W3) times.break = the time of the break activities which the tour shows
        //  (W4) distance = cumulative distance of the last stop (tours without clustered stops)
        // the tour starts with its departure activity (which carries its own time when the first stop also serves jobs) and
        // ends when the last stop is left (the arrival activity has no duration; an open tour ends with its last job)
        let first_dep = {
            let s0 = &stops[0];
            let a0 = s0["activities"].as_array().and_then(|a| a.first());
            match a0.and_then(|a| a.get("time")).filter(|t| !t.is_null()) {
                Some(t) => t["end"].as_str().and_then(parse_time).ok_or("departure activity time")?,
                None => s0["time"]["departure"].as_str().and_then(parse_time).ok_or("first stop departure")?,
            }
        };
        let last_arr = stops.last().and_then(|s| s["time"]["departure"].as_str()).and_then(parse_time).ok_or("last stop departure")?;
        let r_dur = stat["duration"].as_i64().unwrap_or(-1);
        let saved = std::mem::replace(&mut rep.cur_ctx, "partially-replayed".into());
        if (r_dur - (last_arr - first_dep)).abs() > 1 {
            rep.issue("C03", "tour-duration", format!("tour {ti}: reported duration {r_dur}, end of the last stop - departure = {}", last_arr - first_dep));
        }
        let times = &stat["times"];
        let g = |k: &str| times.get(k).and_then(|v| v.as_i64()).unwrap_or(0);
        let split = g("driving") + g("serving") + g("waiting") + g("break") + g("commuting") + g("parking");
        // every activity contributes up to four truncated terms (driving, waiting, serving/break, commuting)
        let split_tol = 4 * doc_acts + 2;
        if (split - r_dur).abs() > split_tol {
            rep.issue("C03", "times-split", format!("tour {ti}: driving+serving+waiting+break+commuting+parking = {split}, duration {r_dur} (tolerance {split_tol})"));
        }
        let rb = g("break");
        if rb != doc_break {
            rep.issue("C03", "times-break", format!("tour {ti}: reported break {rb}, break activities shown in the tour take {doc_break}"));
        }
        if clustered_stops.is_empty() {
            let r_dist = stat["distance"].as_i64().unwrap_or(-1);
            let last_dist = stops.iter().rev().find_map(|s| s.get("distance").and_then(|d| d.as_i64())).unwrap_or(-1);
            if r_dist != last_dist {
                rep.issue("C03", "tour-distance", format!("tour {ti}: reported distance {r_dist}, cumulative distance of the last stop {last_dist}"));
            }
        }
        rep.cur_ctx = saved;
        rep.rule("tour-statistic-weak", true);
    }
    Ok(())
}

fn time_matches(reported: i64, mine: f64, _tol: f64) -> bool {
    // the writer truncates to whole seconds and the property allows one unit of rounding
    (reported as f64 - mine).abs() <= 1.0 + 1e-9
}

/// Sequence of job ids (customer jobs and the reserved ids departure/arrival/break/reload) in visiting order.
fn tour_job_ids_with_specials(stops: &[Value]) -> Vec<String> {
    stops
        .iter()
        .flat_map(|s| s["activities"].as_array().cloned().unwrap_or_default())
        .filter_map(|a| a["jobId"].as_str().map(|s| s.to_string()))
        .collect()
}

fn check_relation(r: &PRelation, seq: &[String], ti: usize, rep: &mut Report) {
    // `any` pins jobs to the vehicle only (they may be ruined and end up unassigned): judged globally in
    // `check_relation_vehicles`. `sequence`/`strict` members are locked: they stay in the tour, in order.
    if r.kind == "any" {
        return;
    }
    // positions of the relation's jobs in the tour, each relation entry consumes the next occurrence
    let mut positions: Vec<Option<usize>> = Vec::new();
    let mut used: HashSet<usize> = HashSet::new();
    for j in r.jobs.iter() {
        let pos = seq.iter().enumerate().position(|(i, s)| s == j && !used.contains(&i));
        if let Some(pz) = pos {
            used.insert(pz);
        }
        positions.push(pos);
    }
    rep.rule(&format!("relation-{}", r.kind), true);
    if positions.iter().any(|p| p.is_none()) {
        let missing: Vec<&String> = r.jobs.iter().zip(positions.iter()).filter(|(_, p)| p.is_none()).map(|(j, _)| j).collect();
        rep.issue("C01", &format!("relation-{}-missing", r.kind), format!("tour {ti} ({}/{}): locked relation jobs {missing:?} are not in this tour", r.vehicle_id, r.shift_index));
        return;
    }
    let pos: Vec<usize> = positions.into_iter().flatten().collect();
    match r.kind.as_str() {
        "sequence" => {
            if pos.windows(2).any(|w| w[0] >= w[1]) {
                rep.issue("C01", "relation-sequence-order", format!("tour {ti}: sequence relation {:?} is visited in order {pos:?}", r.jobs));
            }
        }
        "strict" => {
            if pos.windows(2).any(|w| w[0] + 1 != w[1]) {
                rep.issue("C01", "relation-strict-contiguity", format!("tour {ti}: strict relation {:?} is visited at positions {pos:?}", r.jobs));
            }
        }
        _ => {}
    }
}

/// Relation pinning to the vehicle: a job named by a relation never rides in a tour of another vehicle shift.
pub fn check_relation_vehicles(p: &PProblem, solution: &Value, rep: &mut Report) {
    let reserved = ["departure", "arrival", "break", "reload"];
    for r in p.relations.iter() {
        for (ti, tour) in solution["tours"].as_array().into_iter().flatten().enumerate() {
            let vid = tour["vehicleId"].as_str().unwrap_or("");
            let si = tour.get("shiftIndex").and_then(|s| s.as_u64()).unwrap_or(0) as usize;
            if vid == r.vehicle_id && si == r.shift_index {
                continue;
            }
            let ids = tour_job_ids_with_specials(tour["stops"].as_array().map(|v| v.as_slice()).unwrap_or(&[]));
            for j in r.jobs.iter().filter(|j| !reserved.contains(&j.as_str())) {
                rep.rule(&format!("relation-{}", r.kind), true);
                if ids.contains(j) {
                    rep.issue("C01", &format!("relation-{}-vehicle", r.kind), format!("job {j} is pinned to {}/{} by a relation but rides in tour {ti} ({vid}/{si})", r.vehicle_id, r.shift_index));
                }
            }
        }
    }
}

/// The relation rule when the tour of the named vehicle shift is absent altogether.
pub fn check_relations_have_tours(p: &PProblem, solution: &Value, rep: &mut Report) {
    let tours: Vec<(String, usize)> = solution["tours"]
        .as_array()
        .map(|a| a.iter().map(|t| (t["vehicleId"].as_str().unwrap_or("").to_string(), t.get("shiftIndex").and_then(|s| s.as_u64()).unwrap_or(0) as usize)).collect())
        .unwrap_or_default();
    for r in p.relations.iter().filter(|r| r.kind != "any") {
        if !tours.iter().any(|(v, s)| *v == r.vehicle_id && *s == r.shift_index) {
            let customer: Vec<&String> = r.jobs.iter().filter(|j| !["departure", "arrival", "break", "reload"].contains(&j.as_str())).collect();
            if !customer.is_empty() {
                rep.issue("C01", &format!("relation-{}-missing", r.kind), format!("locked relation on {}/{} with jobs {customer:?}: that vehicle shift drives no tour", r.vehicle_id, r.shift_index));
            }
        }
    }
}
