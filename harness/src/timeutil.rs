//! Own RFC3339 (UTC, whole seconds) formatting/parsing, independent of vrp-pragmatic's `parse_time`.

/// Base instant of all generated problems: 2024-01-01T00:00:00Z.
pub const T0: i64 = 1_704_067_200;

fn days_from_civil(y: i64, m: i64, d: i64) -> i64 {
    let y = if m <= 2 { y - 1 } else { y };
    let era = if y >= 0 { y } else { y - 399 } / 400;
    let yoe = y - era * 400;
    let mp = (m + 9) % 12;
    let doy = (153 * mp + 2) / 5 + d - 1;
    let doe = yoe * 365 + yoe / 4 - yoe / 100 + doy;
    era * 146_097 + doe - 719_468
}

fn civil_from_days(z: i64) -> (i64, i64, i64) {
    let z = z + 719_468;
    let era = if z >= 0 { z } else { z - 146_096 } / 146_097;
    let doe = z - era * 146_097;
    let yoe = (doe - doe / 1460 + doe / 36_524 - doe / 146_096) / 365;
    let y = yoe + era * 400;
    let doy = doe - (365 * yoe + yoe / 4 - yoe / 100);
    let mp = (5 * doy + 2) / 153;
    let d = doy - (153 * mp + 2) / 5 + 1;
    let m = if mp < 10 { mp + 3 } else { mp - 9 };
    (if m <= 2 { y + 1 } else { y }, m, d)
}

/// Formats unix seconds as `YYYY-MM-DDThh:mm:ssZ`.
pub fn fmt_time(secs: i64) -> String {
    let days = secs.div_euclid(86_400);
    let rem = secs.rem_euclid(86_400);
    let (y, m, d) = civil_from_days(days);
    format!("{:04}-{:02}-{:02}T{:02}:{:02}:{:02}Z", y, m, d, rem / 3600, (rem % 3600) / 60, rem % 60)
}

/// Formats an offset (seconds from `T0`).
pub fn fmt_off(off: i64) -> String {
    fmt_time(T0 + off)
}

/// Parses `YYYY-MM-DDThh:mm:ss[.fff](Z|+hh:mm|-hh:mm)` into unix seconds (fraction truncated).
pub fn parse_time(s: &str) -> Option<i64> {
    let b = s.as_bytes();
    if b.len() < 20 {
        return None;
    }
    let num = |r: std::ops::Range<usize>| -> Option<i64> {
        let t = s.get(r)?;
        if t.bytes().all(|c| c.is_ascii_digit()) { t.parse::<i64>().ok() } else { None }
    };
    if b[4] != b'-' || b[7] != b'-' || (b[10] != b'T' && b[10] != b't') || b[13] != b':' || b[16] != b':' {
        return None;
    }
    let (y, mo, d, h, mi, se) = (num(0..4)?, num(5..7)?, num(8..10)?, num(11..13)?, num(14..16)?, num(17..19)?);
    if !(1..=12).contains(&mo) || !(1..=31).contains(&d) || h > 23 || mi > 59 || se > 60 {
        return None;
    }
    let mut i = 19;
    if b.get(i) == Some(&b'.') {
        i += 1;
        let st = i;
        while i < b.len() && b[i].is_ascii_digit() {
            i += 1;
        }
        if i == st {
            return None;
        }
    }
    let off = match b.get(i)? {
        b'Z' | b'z' => {
            if i + 1 != b.len() {
                return None;
            }
            0
        }
        sign @ (b'+' | b'-') => {
            if b.len() != i + 6 || b[i + 3] != b':' {
                return None;
            }
            let oh = num(i + 1..i + 3)?;
            let om = num(i + 4..i + 6)?;
            let o = oh * 3600 + om * 60;
            if *sign == b'+' { o } else { -o }
        }
        _ => return None,
    };
    Some(days_from_civil(y, mo, d) * 86_400 + h * 3600 + mi * 60 + se - off)
}

#[cfg(test)]
mod tests {
    use super::*;
    #[test]
    fn round_trip() {
        assert_eq!(fmt_time(T0), "2024-01-01T00:00:00Z");
        assert_eq!(parse_time("2024-01-01T00:00:00Z"), Some(T0));
        assert_eq!(parse_time("1970-01-01T00:00:00Z"), Some(0));
        assert_eq!(parse_time("2024-01-01T02:00:00+02:00"), Some(T0));
        for s in [0i64, 1, 59, 86_399, 86_400, 1_000_000_000, T0 + 123_456, 4_102_444_800] {
            assert_eq!(parse_time(&fmt_time(s)), Some(s));
        }
    }
}
