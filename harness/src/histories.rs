//! G3 – operator histories on a core `Problem` and the structural side of the C04 oracle.
//!
//! Three parts:
//! * `Dump`/`Facts`: a serialisable structural snapshot of an `InsertionContext` (taken through public API plus the
//!   H1a digests) and of the problem (jobs, actors, locks). Everything the oracle decides on is in these two documents,
//!   so a recorded violation can be re-judged by `--replay` without running the solver again.
//! * `check_inv`: Inv clauses (i)-(iv) of C04 written from the property text (conservation with multiplicities, registry
//!   vs tours, multi-part jobs whole and pickups first, pinned jobs on their vehicle in their order). It never asks the
//!   code under test for an expected value.
//! * `Catalogue`: every shipped ruin / recreate / local operator / search operator / hyper-heuristic entry point,
//!   constructed with the same calls as vrp-cli's config.rs and vrp-core's heuristic.rs, plus a seeded history generator.

use crate::rng::Rng;
use crate::run::{PanicInfo, guard};
use serde::{Deserialize, Serialize};
use std::collections::{BTreeMap, BTreeSet, HashMap};
use std::io::BufWriter;
use std::sync::Arc;
use vrp_core::construction::heuristics::{InsertionContext, UnassignmentInfo};
use vrp_core::models::common::Footprint;
use vrp_core::models::problem::{Actor, Job, JobIdDimension, VehicleIdDimension};
use vrp_core::models::{GoalContext, LockOrder, LockPosition, Problem, Solution};
use vrp_core::rosomaxa::evolution::TelemetryMode;
use vrp_core::rosomaxa::hyper::{DynamicSelective, HyperHeuristic, StaticSelective};
use vrp_core::rosomaxa::population::RosomaxaConfig;
use vrp_core::rosomaxa::prelude::*;
use vrp_core::rosomaxa::utils::Noise;
use vrp_core::solver::search::*;
use vrp_core::solver::*;
use vrp_pragmatic::format::solution::{PragmaticOutputType, write_pragmatic};
use vrp_pragmatic::format::{JobTypeDimension, ShiftIndexDimension};

// =================================================================================================
// dumps

#[derive(Clone, Debug, Serialize, Deserialize)]
pub struct ActDump {
    /// Job id (`None` for the depot terminals).
    pub job: Option<String>,
    /// Index of the single inside its Multi (0 for a Single job), number of singles of the job.
    pub sub: usize,
    pub of: usize,
    /// Job type dimension of the single (pickup/delivery/replacement/service/break/reload/recharge), empty for terminals.
    pub kind: String,
    pub place_idx: usize,
    pub location: usize,
    pub tw: (f64, f64),
    pub duration: f64,
    pub arrival: f64,
    pub departure: f64,
}

#[derive(Clone, Debug, Serialize, Deserialize)]
pub struct RouteDump {
    /// `vehicleId#shiftIndex`.
    pub actor: String,
    pub acts: Vec<ActDump>,
    /// The tour's own job index (`tour.jobs()`), sorted ids.
    pub tour_jobs: Vec<String>,
    pub is_stale: bool,
    pub state: Vec<(String, String)>,
}

#[derive(Clone, Debug, Serialize, Deserialize)]
pub struct Dump {
    pub routes: Vec<RouteDump>,
    pub required: Vec<String>,
    pub ignored: Vec<String>,
    pub unassigned: Vec<String>,
    pub locked: Vec<String>,
    pub available: Vec<String>,
    pub state: Vec<(String, String)>,
}

pub fn job_id(job: &Job) -> String {
    job.dimens().get_job_id().cloned().unwrap_or_else(|| "<no-id>".to_string())
}

pub fn actor_id(actor: &Actor) -> String {
    let d = &actor.vehicle.dimens;
    format!("{}#{}", d.get_vehicle_id().cloned().unwrap_or_else(|| "?".into()), d.get_shift_index().copied().unwrap_or(usize::MAX))
}

fn sorted(mut v: Vec<String>) -> Vec<String> {
    v.sort();
    v
}

pub fn dump(ctx: &InsertionContext) -> Dump {
    let s = &ctx.solution;
    let routes = s
        .routes
        .iter()
        .map(|rc| {
            let acts = rc
                .route()
                .tour
                .all_activities()
                .map(|a| {
                    let (job, sub, of, kind) = match a.job.as_ref() {
                        None => (None, 0, 0, String::new()),
                        Some(single) => {
                            let kind = single.dimens.get_job_type().cloned().unwrap_or_default();
                            match a.retrieve_job() {
                                Some(Job::Multi(m)) => {
                                    let sub = m.jobs.iter().position(|x| Arc::ptr_eq(x, single)).unwrap_or(usize::MAX);
                                    (Some(job_id(&Job::Multi(m.clone()))), sub, m.jobs.len(), kind)
                                }
                                Some(j) => (Some(job_id(&j)), 0, 1, kind),
                                None => (Some("<no-job>".to_string()), 0, 1, kind),
                            }
                        }
                    };
                    ActDump {
                        job,
                        sub,
                        of,
                        kind,
                        place_idx: a.place.idx,
                        location: a.place.location,
                        tw: (a.place.time.start, a.place.time.end),
                        duration: a.place.duration,
                        arrival: a.schedule.arrival,
                        departure: a.schedule.departure,
                    }
                })
                .collect();
            RouteDump {
                actor: actor_id(rc.route().actor.as_ref()),
                acts,
                tour_jobs: sorted(rc.route().tour.jobs().map(job_id).collect()),
                is_stale: rc.is_stale(),
                state: rc.state().verif_digest(),
            }
        })
        .collect();
    Dump {
        routes,
        required: sorted(s.required.iter().map(job_id).collect()),
        ignored: sorted(s.ignored.iter().map(job_id).collect()),
        unassigned: sorted(s.unassigned.keys().map(job_id).collect()),
        locked: sorted(s.locked.iter().map(job_id).collect()),
        available: sorted(s.registry.resources().available().map(|a| actor_id(a.as_ref())).collect()),
        state: s.state.verif_digest(),
    }
}

fn feq(a: f64, b: f64) -> bool {
    a.to_bits() == b.to_bits()
}

/// First observable difference between two dumps (`None` = identical). Used for (P): parent unchanged.
pub fn diff(a: &Dump, b: &Dump) -> Option<String> {
    if a.routes.len() != b.routes.len() {
        return Some(format!("number of routes {} -> {}", a.routes.len(), b.routes.len()));
    }
    for (i, (ra, rb)) in a.routes.iter().zip(b.routes.iter()).enumerate() {
        if ra.actor != rb.actor {
            return Some(format!("route {i}: actor {} -> {}", ra.actor, rb.actor));
        }
        if ra.acts.len() != rb.acts.len() {
            return Some(format!("route {i} ({}): {} -> {} activities", ra.actor, ra.acts.len(), rb.acts.len()));
        }
        for (k, (x, y)) in ra.acts.iter().zip(rb.acts.iter()).enumerate() {
            if x.job != y.job || x.sub != y.sub || x.place_idx != y.place_idx || x.location != y.location {
                return Some(format!("route {i} ({}) activity {k}: {:?}/{} at {} -> {:?}/{} at {}", ra.actor, x.job, x.sub, x.location, y.job, y.sub, y.location));
            }
            if !feq(x.tw.0, y.tw.0) || !feq(x.tw.1, y.tw.1) || !feq(x.duration, y.duration) {
                return Some(format!("route {i} ({}) activity {k} ({:?}): place window/duration changed", ra.actor, x.job));
            }
            if !feq(x.arrival, y.arrival) || !feq(x.departure, y.departure) {
                return Some(format!("route {i} ({}) activity {k} ({:?}): schedule {}..{} -> {}..{}", ra.actor, x.job, x.arrival, x.departure, y.arrival, y.departure));
            }
        }
        if ra.tour_jobs != rb.tour_jobs {
            return Some(format!("route {i} ({}): tour job index changed", ra.actor));
        }
        if ra.is_stale != rb.is_stale {
            return Some(format!("route {i} ({}): is_stale {} -> {}", ra.actor, ra.is_stale, rb.is_stale));
        }
        if ra.state != rb.state {
            let key = ra.state.iter().zip(rb.state.iter()).find(|(p, q)| p != q).map(|(p, _)| p.0.clone()).unwrap_or_else(|| "<key set>".into());
            return Some(format!("route {i} ({}): cached route state differs at {key}", ra.actor));
        }
    }
    for (name, x, y) in [
        ("required", &a.required, &b.required),
        ("ignored", &a.ignored, &b.ignored),
        ("unassigned", &a.unassigned, &b.unassigned),
        ("locked", &a.locked, &b.locked),
        ("registry.available", &a.available, &b.available),
    ] {
        if x != y {
            return Some(format!("{name}: {x:?} -> {y:?}"));
        }
    }
    if a.state != b.state {
        let key = a.state.iter().zip(b.state.iter()).find(|(p, q)| p != q).map(|(p, _)| p.0.clone()).unwrap_or_else(|| "<key set>".into());
        return Some(format!("solution state differs at {key}"));
    }
    None
}

/// Where every job lives: `route:<actor>` / `required` / `ignored` / `unassigned` (first home found).
pub fn homes(d: &Dump) -> BTreeMap<String, String> {
    let mut m = BTreeMap::new();
    for r in d.routes.iter() {
        for a in r.acts.iter() {
            if let Some(j) = &a.job {
                m.entry(j.clone()).or_insert_with(|| format!("route:{}", r.actor));
            }
        }
    }
    for (name, list) in [("required", &d.required), ("ignored", &d.ignored), ("unassigned", &d.unassigned)] {
        for j in list.iter() {
            m.entry(j.clone()).or_insert_with(|| name.to_string());
        }
    }
    m
}

/// (jobs whose home changed, anything observable changed in the tours/containers incl. order and schedule).
pub fn change(parent: &Dump, child: &Dump) -> (usize, bool) {
    let (hp, hc) = (homes(parent), homes(child));
    let moved = hp.iter().filter(|(j, h)| hc.get(*j) != Some(*h)).count() + hc.keys().filter(|j| !hp.contains_key(*j)).count();
    let key = |d: &Dump| -> Vec<String> {
        let mut v: Vec<String> = d
            .routes
            .iter()
            .map(|r| format!("{}:{}", r.actor, r.acts.iter().map(|a| format!("{:?}/{}@{}..{}", a.job, a.sub, a.arrival.to_bits(), a.departure.to_bits())).collect::<Vec<_>>().join(",")))
            .collect();
        v.sort();
        v.push(format!("{:?}|{:?}|{:?}", d.required, d.ignored, d.unassigned));
        v
    };
    (moved, moved > 0 || key(parent) != key(child))
}

// =================================================================================================
// problem facts

#[derive(Clone, Debug, Serialize, Deserialize)]
pub struct JobFact {
    pub id: String,
    /// Job type of every single, in the Multi's own order.
    pub kinds: Vec<String>,
    /// customer / break / reload / recharge
    pub class: String,
}

#[derive(Clone, Debug, Serialize, Deserialize)]
pub struct LockDetailFact {
    pub order: String,
    pub position: String,
    pub jobs: Vec<String>,
}

#[derive(Clone, Debug, Serialize, Deserialize)]
pub struct LockFact {
    /// Actors which satisfy the lock condition.
    pub actors: Vec<String>,
    pub details: Vec<LockDetailFact>,
}

#[derive(Clone, Debug, Serialize, Deserialize)]
pub struct Facts {
    pub jobs: Vec<JobFact>,
    pub actors: Vec<String>,
    pub locks: Vec<LockFact>,
}

impl Facts {
    /// `Err` when jobs or actors cannot be told apart by their ids (the dump would be ambiguous).
    pub fn new(problem: &Problem) -> Result<Facts, String> {
        let mut seen = BTreeSet::new();
        let mut jobs = Vec::new();
        for job in problem.jobs.all().iter() {
            let id = job_id(job);
            if id == "<no-id>" || !seen.insert(id.clone()) {
                return Err(format!("job id {id} is missing or not unique"));
            }
            let (kinds, class) = match job {
                Job::Single(s) => {
                    let k = s.dimens.get_job_type().cloned().unwrap_or_default();
                    let class = if s.dimens.get_vehicle_id().is_some() { k.clone() } else { "customer".to_string() };
                    (vec![k], class)
                }
                Job::Multi(m) => (m.jobs.iter().map(|s| s.dimens.get_job_type().cloned().unwrap_or_default()).collect(), "customer".to_string()),
            };
            jobs.push(JobFact { id, kinds, class });
        }
        let actors: Vec<String> = problem.fleet.actors.iter().map(|a| actor_id(a.as_ref())).collect();
        if actors.iter().collect::<BTreeSet<_>>().len() != actors.len() {
            return Err("actor ids (vehicle id + shift index) are not unique".into());
        }
        let locks = problem
            .locks
            .iter()
            .map(|l| LockFact {
                actors: problem.fleet.actors.iter().filter(|a| (l.condition_fn)(a.as_ref())).map(|a| actor_id(a.as_ref())).collect(),
                details: l
                    .details
                    .iter()
                    .map(|d| LockDetailFact {
                        order: match d.order {
                            LockOrder::Any => "any",
                            LockOrder::Sequence => "sequence",
                            LockOrder::Strict => "strict",
                        }
                        .to_string(),
                        position: match d.position {
                            LockPosition::Any => "any",
                            LockPosition::Departure => "departure",
                            LockPosition::Arrival => "arrival",
                            LockPosition::Fixed => "fixed",
                        }
                        .to_string(),
                        jobs: d.jobs.iter().map(job_id).collect(),
                    })
                    .collect(),
            })
            .collect();
        Ok(Facts { jobs, actors, locks })
    }
}

// =================================================================================================
// Inv (i)-(iv)

#[derive(Clone, Debug, Serialize, Deserialize)]
pub struct Finding {
    /// Broken clause: stable identifier used in the signature (`job-in-two-places`, `registry-drift`, ...).
    pub clause: String,
    /// Extra stable classifier (job class, sub-case), may be empty.
    pub class: String,
    pub detail: String,
}

fn finding(out: &mut Vec<Finding>, clause: &str, class: &str, detail: String) {
    if out.len() < 50 {
        out.push(Finding { clause: clause.to_string(), class: class.to_string(), detail });
    }
}

/// Inv clauses (i)-(iv) on a dump. `parent_locked`: the parent's `locked` ids (pinned jobs must stay pinned).
/// `closed_ends`: per actor whether the shift has an end (needed for the tour frame), taken from the dump's own parent is not
/// possible, so the frame rule only uses what every tour shows: first activity is a terminal, no terminal in the middle.
pub fn check_inv(facts: &Facts, d: &Dump, parent_locked: Option<&[String]>) -> Vec<Finding> {
    let mut out = Vec::new();
    let known: HashMap<&str, &JobFact> = facts.jobs.iter().map(|j| (j.id.as_str(), j)).collect();
    let class_of = |id: &str| known.get(id).map(|j| j.class.as_str()).unwrap_or("unknown").to_string();

    // ---- tour frame: departure first, nothing without a job in the middle, tour job index == activities
    for r in d.routes.iter() {
        if r.acts.is_empty() || r.acts[0].job.is_some() {
            finding(&mut out, "tour-frame-broken", "no-start", format!("route {}: first activity is not the departure terminal", r.actor));
        }
        let n = r.acts.len();
        for (k, a) in r.acts.iter().enumerate() {
            if a.job.is_none() && k != 0 && k + 1 != n {
                finding(&mut out, "tour-frame-broken", "terminal-in-the-middle", format!("route {}: a depot terminal sits at position {k} of {n}", r.actor));
            }
        }
        let from_acts: BTreeSet<&String> = r.acts.iter().filter_map(|a| a.job.as_ref()).collect();
        let from_index: BTreeSet<&String> = r.tour_jobs.iter().collect();
        if from_acts != from_index {
            finding(&mut out, "tour-index-drift", "", format!("route {}: jobs by activities {:?} != tour job index {:?}", r.actor, from_acts, from_index));
        }
    }

    // ---- (i) conservation with multiplicities
    let mut in_routes: BTreeMap<&str, Vec<(usize, usize)>> = BTreeMap::new(); // job -> [(route idx, sub)]
    for (ri, r) in d.routes.iter().enumerate() {
        for a in r.acts.iter() {
            if let Some(j) = &a.job {
                in_routes.entry(j.as_str()).or_default().push((ri, a.sub));
            }
        }
    }
    let count = |list: &[String], id: &str| list.iter().filter(|x| x.as_str() == id).count();
    for j in facts.jobs.iter() {
        let id = j.id.as_str();
        let routes_with: BTreeSet<usize> = in_routes.get(id).map(|v| v.iter().map(|x| x.0).collect()).unwrap_or_default();
        let (nr, nq, ni, nu) = (routes_with.len(), count(&d.required, id), count(&d.ignored, id), count(&d.unassigned, id));
        let total = nr + nq + ni + nu;
        let mut places: Vec<String> = Vec::new();
        if nr > 0 {
            places.push(if nr > 1 { "routes".into() } else { "route".into() });
        }
        for (n, name) in [(nq, "required"), (ni, "ignored"), (nu, "unassigned")] {
            if n > 1 {
                // the multiplicity itself is not part of the signature (it varies with the history)
                places.push(format!("{name}x2+"));
            } else if n == 1 {
                places.push(name.to_string());
            }
        }
        if total == 0 {
            finding(&mut out, "job-lost", &j.class, format!("job {id} is in no route and in none of required/ignored/unassigned"));
        } else if total > 1 {
            let where_ = places.join("+");
            let actors: Vec<&String> = routes_with.iter().map(|ri| &d.routes[*ri].actor).collect();
            finding(&mut out, "job-in-two-places", &format!("{}|where={where_}", j.class), format!("job {id} lives in {total} places: routes {actors:?}, required x{nq}, ignored x{ni}, unassigned x{nu}"));
        }
        // inside its route every single is served exactly once
        if let Some(occ) = in_routes.get(id) {
            for ri in routes_with.iter() {
                let mut per_sub: BTreeMap<usize, usize> = BTreeMap::new();
                for (r, s) in occ.iter().filter(|(r, _)| r == ri) {
                    let _ = r;
                    *per_sub.entry(*s).or_default() += 1;
                }
                if let Some((s, n)) = per_sub.iter().find(|(_, n)| **n > 1) {
                    finding(&mut out, "job-twice-in-route", &j.class, format!("job {id} (single #{s}) has {n} activities in route {}", d.routes[*ri].actor));
                }
                // (iii) multi jobs whole
                if j.kinds.len() > 1 {
                    let missing: Vec<usize> = (0..j.kinds.len()).filter(|s| !per_sub.contains_key(s)).collect();
                    let alien: Vec<&usize> = per_sub.keys().filter(|s| **s >= j.kinds.len()).collect();
                    if !missing.is_empty() || !alien.is_empty() {
                        finding(&mut out, "multi-job-split", "", format!("multi job {id}: route {} holds singles {:?} of {} (missing {missing:?})", d.routes[*ri].actor, per_sub.keys().collect::<Vec<_>>(), j.kinds.len()));
                    } else {
                        // documented order: pickups before any delivery / replacement / service of the same job
                        let seq: Vec<usize> = d.routes[*ri].acts.iter().filter(|a| a.job.as_deref() == Some(id)).map(|a| a.sub).collect();
                        let mut seen_non_pickup = false;
                        for s in seq.iter() {
                            let is_pickup = j.kinds.get(*s).map(|k| k == "pickup").unwrap_or(false);
                            if !is_pickup {
                                seen_non_pickup = true;
                            } else if seen_non_pickup {
                                finding(&mut out, "multi-job-order", "", format!("multi job {id}: singles are visited in order {seq:?} with kinds {:?}: a pickup after a delivery/replacement/service", j.kinds));
                                break;
                            }
                        }
                    }
                }
            }
        }
    }
    // ids which are not jobs of the problem
    let mut all_ids: Vec<(&str, &str)> = Vec::new();
    in_routes.keys().for_each(|j| all_ids.push(("route", j)));
    d.required.iter().for_each(|j| all_ids.push(("required", j)));
    d.ignored.iter().for_each(|j| all_ids.push(("ignored", j)));
    d.unassigned.iter().for_each(|j| all_ids.push(("unassigned", j)));
    for (place, id) in all_ids {
        if !known.contains_key(id) {
            finding(&mut out, "unknown-job", place, format!("{place} holds {id} which is not a job of the problem"));
        }
    }

    // ---- (ii) registry vs tours
    let mut drivers: BTreeMap<&str, usize> = BTreeMap::new();
    for r in d.routes.iter() {
        *drivers.entry(r.actor.as_str()).or_default() += 1;
    }
    for (a, n) in drivers.iter() {
        if *n > 1 {
            finding(&mut out, "registry-drift", "actor-drives-two-routes", format!("actor {a} drives {n} routes"));
        }
        if !facts.actors.iter().any(|x| x == a) {
            finding(&mut out, "registry-drift", "unknown-actor", format!("route is driven by {a} which is not an actor of the fleet"));
        }
    }
    let avail: BTreeSet<&str> = d.available.iter().map(|s| s.as_str()).collect();
    if avail.len() != d.available.len() {
        finding(&mut out, "registry-drift", "actor-available-twice", format!("available list holds an actor twice: {:?}", d.available));
    }
    for a in facts.actors.iter() {
        let used = drivers.contains_key(a.as_str());
        let free = avail.contains(a.as_str());
        if used && free {
            finding(&mut out, "registry-drift", "actor-available-and-used", format!("actor {a} drives a route but the registry lists it as available"));
        }
        if !used && !free {
            finding(&mut out, "registry-drift", "actor-neither-available-nor-used", format!("actor {a} drives no route and is not available in the registry"));
        }
    }

    // ---- (iv) pinned jobs
    let locked: BTreeSet<&str> = d.locked.iter().map(|s| s.as_str()).collect();
    let lock_jobs: BTreeSet<&str> = facts.locks.iter().flat_map(|l| l.details.iter().flat_map(|x| x.jobs.iter().map(|s| s.as_str()))).collect();
    if let Some(pl) = parent_locked {
        for j in pl.iter().filter(|j| lock_jobs.contains(j.as_str())) {
            if !locked.contains(j.as_str()) {
                finding(&mut out, "locked-set-shrunk", &class_of(j), format!("job {j} was locked in the parent and is not locked any more"));
            }
        }
    }
    for l in facts.locks.iter() {
        for det in l.details.iter() {
            // pinning to the vehicle holds for every job of a lock which is assigned
            for j in det.jobs.iter().collect::<BTreeSet<_>>() {
                if let Some(occ) = in_routes.get(j.as_str()) {
                    for ri in occ.iter().map(|x| x.0).collect::<BTreeSet<_>>() {
                        if !l.actors.contains(&d.routes[ri].actor) {
                            let clause = if locked.contains(j.as_str()) { "locked-job-moved" } else { "pinned-job-on-other-vehicle" };
                            finding(&mut out, clause, &det.order, format!("job {j} is pinned to {:?} by a {} relation but rides with {}", l.actors, det.order, d.routes[ri].actor));
                        }
                    }
                } else if locked.contains(j.as_str()) && det.order != "any" {
                    finding(&mut out, "locked-job-removed", &det.order, format!("locked job {j} ({} relation on {:?}) is in no route", det.order, l.actors));
                }
            }
            if det.order == "any" {
                continue;
            }
            // order / contiguity: judged in the route of a permitted actor which holds the first locked job
            let members: Vec<&String> = det.jobs.iter().filter(|j| locked.contains(j.as_str())).collect();
            if members.is_empty() {
                continue;
            }
            let Some(r) = d.routes.iter().find(|r| l.actors.contains(&r.actor) && r.acts.iter().any(|a| a.job.as_ref() == Some(members[0]))) else {
                continue; // reported above as moved/removed
            };
            let seq: Vec<Option<&String>> = r.acts.iter().map(|a| a.job.as_ref()).collect();
            let mut used = vec![false; seq.len()];
            let mut pos: Vec<usize> = Vec::new();
            let mut complete = true;
            for j in members.iter() {
                match (0..seq.len()).find(|i| !used[*i] && seq[*i] == Some(*j)) {
                    Some(i) => {
                        used[i] = true;
                        pos.push(i);
                    }
                    None => complete = false,
                }
            }
            if !complete {
                continue; // reported above
            }
            if pos.windows(2).any(|w| w[0] >= w[1]) {
                finding(&mut out, "locked-order-broken", &det.order, format!("route {}: {} relation {:?} is visited at positions {pos:?}", r.actor, det.order, det.jobs));
            } else if det.order == "strict" {
                if pos.windows(2).any(|w| w[0] + 1 != w[1]) {
                    finding(&mut out, "locked-strict-broken", "not-contiguous", format!("route {}: strict relation {:?} is visited at positions {pos:?}", r.actor, det.jobs));
                }
                let first_ok = pos.first() == Some(&1);
                let last_job_pos = (0..seq.len()).rev().find(|i| seq[*i].is_some());
                let last_ok = pos.last().copied() == last_job_pos;
                let bad = match det.position.as_str() {
                    "departure" => !first_ok,
                    "arrival" => !last_ok,
                    "fixed" => !first_ok || !last_ok,
                    _ => false,
                };
                if bad && members.len() == det.jobs.len() {
                    finding(&mut out, "locked-strict-broken", &format!("position-{}", det.position), format!("route {}: strict relation {:?} anchored at {} sits at positions {pos:?} of {}", r.actor, det.jobs, det.position, seq.len()));
                }
            }
        }
    }
    out
}

// =================================================================================================
// serialisation for O1

/// Serialises the context with the public pragmatic writer (as vrp-cli does). Routes without jobs are dropped first:
/// they are allowed mid-history and only C02 forbids them in output.
pub fn to_pragmatic(ctx: &InsertionContext) -> Result<Result<serde_json::Value, String>, PanicInfo> {
    let copy = ctx.deep_copy();
    guard(move || {
        let problem = copy.problem.clone();
        let mut solution: Solution = copy.into();
        solution.routes.retain(|r| r.tour.has_jobs());
        let mut writer = BufWriter::new(Vec::new());
        write_pragmatic(problem.as_ref(), &solution, PragmaticOutputType::default(), &mut writer).map_err(|e| e.to_string())?;
        let bytes = writer.into_inner().map_err(|e| e.to_string())?;
        serde_json::from_slice::<serde_json::Value>(&bytes).map_err(|e| e.to_string())
    })
}

// =================================================================================================
// operator catalogue

#[derive(Clone, Copy, Debug, PartialEq, Eq)]
pub enum OpKind {
    Ruin,
    Recreate,
    Local,
    Search,
    HyperSearch,
    HyperDiversify,
}

impl OpKind {
    pub fn as_str(&self) -> &'static str {
        match self {
            OpKind::Ruin => "ruin",
            OpKind::Recreate => "recreate",
            OpKind::Local => "local",
            OpKind::Search => "search",
            OpKind::HyperSearch => "hyper-search",
            OpKind::HyperDiversify => "hyper-diversify",
        }
    }
}

type StaticH = StaticSelective<RefinementContext, GoalContext, InsertionContext>;
type DynamicH = DynamicSelective<RefinementContext, GoalContext, InsertionContext>;

enum OpImpl {
    Ruin(Arc<dyn Ruin>),
    Recreate(Arc<dyn Recreate>),
    Local(Arc<dyn LocalOperator>),
    Search(TargetSearchOperator),
    /// (static?, method): methods search / search_many / diversify / diversify_many
    Hyper(bool, &'static str),
}

pub struct Op {
    /// Stable operator name used in signatures and tables.
    pub name: String,
    /// Construction parameters / inner operators (for artefacts).
    pub params: String,
    pub kind: OpKind,
    imp: OpImpl,
}

pub struct Catalogue {
    pub ops: Vec<Op>,
    problem: Arc<Problem>,
    environment: Arc<Environment>,
    stat: Option<StaticH>,
    dynamic: Option<DynamicH>,
}

/// Names of all operators the catalogue ships (coverage floor: each must be called effectively).
pub const SHIPPED: &[&str] = &[
    "AdjustedStringRemoval",
    "NeighbourRemoval",
    "RandomJobRemoval",
    "RandomRouteRemoval",
    "CloseRouteRemoval",
    "WorstRouteRemoval",
    "WorstJobRemoval",
    "ClusterRemoval",
    "CompositeRuin",
    "WeightedRuin",
    "RecreateWithCheapest",
    "RecreateWithRegret",
    "RecreateWithGaps",
    "RecreateWithBlinks",
    "RecreateWithFarthest",
    "RecreateWithNearestNeighbor",
    "RecreateWithSkipBest",
    "RecreateWithSkipRandom",
    "RecreateWithSlice",
    "RecreateWithPerturbation",
    "WeightedRecreate",
    "PhasedRecreate",
    "ExchangeInterRouteBest",
    "ExchangeInterRouteRandom",
    "ExchangeIntraRouteRandom",
    "ExchangeSequence",
    "ExchangeSwapStar",
    "RescheduleDeparture",
    "CompositeLocalOperator",
    "RuinAndRecreate",
    "LocalSearch",
    "DecomposeSearch",
    "RedistributeSearch",
    "InfeasibleSearch",
    "LKHSearch.ImprovementOnly",
    "LKHSearch.Diverse",
    "WeightedHeuristicOperator",
    "CompositeHeuristicOperator",
    "DefaultHeuristicOperator",
    "StaticSelective.search",
    "StaticSelective.search_many",
    "StaticSelective.diversify",
    "StaticSelective.diversify_many",
    "DynamicSelective.search",
    "DynamicSelective.search_many",
    "DynamicSelective.diversify",
    "DynamicSelective.diversify_many",
];

fn gen_limits(rng: &mut Rng, problem: &Problem) -> (RemovalLimits, String) {
    if rng.chance(0.4) {
        let l = RemovalLimits::new(problem);
        let text = format!("limits=default({:?},{:?})", l.removed_activities_range, l.affected_routes_range);
        (l, text)
    } else {
        let a = rng.range_usize(1, 4);
        let b = rng.range_usize(a + 1, 24);
        let c = rng.range_usize(1, 2);
        let d = rng.range_usize(c + 1, 5);
        (RemovalLimits { removed_activities_range: a..b, affected_routes_range: c..d }, format!("limits=({a}..{b},{c}..{d})"))
    }
}

impl Catalogue {
    /// Builds one instance of every shipped operator with seeded construction parameters (same constructor calls as
    /// vrp-cli `config.rs` / vrp-core `heuristic.rs`).
    pub fn new(problem: Arc<Problem>, environment: Arc<Environment>, rng: &mut Rng) -> Result<Catalogue, PanicInfo> {
        let p = problem.clone();
        let e = environment.clone();
        let mut r = rng.fork();
        let ops = guard(move || build_ops(p, e, &mut r))?;
        Ok(Catalogue { ops, problem, environment, stat: None, dynamic: None })
    }

    pub fn index_of(&self, name: &str) -> Option<usize> {
        self.ops.iter().position(|o| o.name == name)
    }

    pub fn indices_of(&self, kind: OpKind) -> Vec<usize> {
        (0..self.ops.len()).filter(|i| self.ops[*i].kind == kind).collect()
    }

    /// Telemetry names of the operators the dynamic hyper-heuristic picked so far (only with `is_experimental`).
    pub fn dynamic_telemetry_names(&self) -> Vec<String> {
        let Some(d) = &self.dynamic else { return vec![] };
        let text = format!("{d}");
        let mut names = Vec::new();
        let mut in_search = false;
        for line in text.lines() {
            if line.starts_with("name,generation") {
                in_search = true;
                continue;
            }
            if line.starts_with("heuristic:") {
                break;
            }
            if in_search {
                if let Some(n) = line.split(',').next() {
                    names.push(n.to_string());
                }
            }
        }
        names
    }

    /// Calls the operator at the public trait boundary under the panic monitor. `fanout`: how many times the parent is
    /// handed to `search_many`/`diversify_many` (for `diversify`: how often the call is repeated while it returns nothing).
    /// Returns the children (a local operator may return none).
    pub fn apply(&mut self, idx: usize, rctx: &RefinementContext, parent: &InsertionContext, fanout: usize) -> Result<Vec<InsertionContext>, PanicInfo> {
        let problem = self.problem.clone();
        let environment = self.environment.clone();
        if let OpImpl::Hyper(is_static, _) = &self.ops[idx].imp {
            if *is_static && self.stat.is_none() {
                let (p, e) = (problem.clone(), environment.clone());
                self.stat = Some(guard(move || get_static_heuristic(p, e))?);
            }
            if !*is_static && self.dynamic.is_none() {
                let (p, e) = (problem.clone(), environment.clone());
                self.dynamic = Some(guard(move || get_dynamic_heuristic(p, e))?);
            }
        }
        let Catalogue { ops, stat, dynamic, .. } = self;
        let op = &ops[idx];
        guard(move || match &op.imp {
            OpImpl::Ruin(ruin) => vec![ruin.run(rctx, parent.deep_copy())],
            OpImpl::Recreate(recreate) => vec![recreate.run(rctx, parent.deep_copy())],
            OpImpl::Local(local) => local.explore(rctx, parent).into_iter().collect(),
            OpImpl::Search(search) => vec![search.search(rctx, parent)],
            OpImpl::Hyper(is_static, method) => {
                let many: Vec<&InsertionContext> = (0..fanout.max(1)).map(|_| parent).collect();
                if *is_static {
                    let h = stat.as_mut().unwrap();
                    match *method {
                        "search" => h.search(rctx, parent),
                        "search_many" => h.search_many(rctx, many),
                        // `diversify` acts with a small probability only: repeat the call until it did (at most `fanout` times)
                        "diversify" => (0..fanout.max(1)).map(|_| h.diversify(rctx, parent)).find(|c| !c.is_empty()).unwrap_or_default(),
                        _ => h.diversify_many(rctx, many),
                    }
                } else {
                    let h = dynamic.as_mut().unwrap();
                    match *method {
                        "search" => h.search(rctx, parent),
                        "search_many" => h.search_many(rctx, many),
                        "diversify" => (0..fanout.max(1)).map(|_| h.diversify(rctx, parent)).find(|c| !c.is_empty()).unwrap_or_default(),
                        _ => h.diversify_many(rctx, many),
                    }
                }
            }
        })
    }
}

fn build_ops(problem: Arc<Problem>, environment: Arc<Environment>, rng: &mut Rng) -> Vec<Op> {
    let random = environment.random.clone();
    let mut ops: Vec<Op> = Vec::new();

    // ------------------------------------------------------------------ ruins (create_ruin_method)
    let mut ruins: Vec<(Arc<dyn Ruin>, String)> = Vec::new();
    {
        let (l, t) = gen_limits(rng, &problem);
        if rng.chance(0.5) {
            ruins.push((Arc::new(AdjustedStringRemoval::new_with_defaults(l)), format!("AdjustedStringRemoval|defaults {t}")));
        } else {
            // keep 4*cavg/(1+lmax) - 1 >= 0 (smaller cavg makes calculate_limits assert; outside the documented range)
            let lmax = rng.range_usize(2, 30);
            let cavg = (lmax + 1).div_ceil(4) + rng.range_usize(0, 8);
            ruins.push((Arc::new(AdjustedStringRemoval::new(lmax, cavg, 0.01, l)), format!("AdjustedStringRemoval|lmax={lmax} cavg={cavg} alpha=0.01 {t}")));
        }
        let (l, t) = gen_limits(rng, &problem);
        ruins.push((Arc::new(NeighbourRemoval::new(l)), format!("NeighbourRemoval|{t}")));
        let (l, t) = gen_limits(rng, &problem);
        ruins.push((Arc::new(RandomJobRemoval::new(l)), format!("RandomJobRemoval|{t}")));
        let (l, t) = gen_limits(rng, &problem);
        ruins.push((Arc::new(RandomRouteRemoval::new(l)), format!("RandomRouteRemoval|{t}")));
        let (l, t) = gen_limits(rng, &problem);
        ruins.push((Arc::new(CloseRouteRemoval::new(l)), format!("CloseRouteRemoval|{t}")));
        let (l, t) = gen_limits(rng, &problem);
        ruins.push((Arc::new(WorstRouteRemoval::new(l)), format!("WorstRouteRemoval|{t}")));
        let (l, t) = gen_limits(rng, &problem);
        let skip = rng.range_usize(1, 4);
        ruins.push((Arc::new(WorstJobRemoval::new(skip, l)), format!("WorstJobRemoval|skip={skip} {t}")));
        let (l, t) = gen_limits(rng, &problem);
        let cluster: Arc<dyn Ruin> = if rng.chance(0.5) {
            Arc::new(ClusterRemoval::new(problem.clone(), l).expect("ClusterRemoval::new"))
        } else {
            Arc::new(ClusterRemoval::new_with_defaults(problem.clone()).expect("ClusterRemoval::new_with_defaults"))
        };
        ruins.push((cluster, format!("ClusterRemoval|{t}")));
    }
    let pick_ruins = |rng: &mut Rng, n: usize| -> Vec<(Arc<dyn Ruin>, String)> { (0..n).map(|_| ruins[rng.usize_below(ruins.len())].clone()).collect() };
    let composite_ruin = |rng: &mut Rng| -> (Arc<dyn Ruin>, String) {
        let n = rng.range_usize(1, 3);
        let inner = pick_ruins(rng, n);
        let probs: Vec<f64> = inner.iter().enumerate().map(|(i, _)| if i == 0 { 1.0 } else { *rng.pick(&[1.0f64, 0.5, 0.1]) }).collect();
        let text = inner.iter().zip(probs.iter()).map(|((_, t), p)| format!("{}@{p}", t.split('|').next().unwrap())).collect::<Vec<_>>().join("+");
        (Arc::new(CompositeRuin::new(inner.into_iter().zip(probs).map(|((r, _), p)| (r, p)).collect())), format!("CompositeRuin|[{text}]"))
    };
    let weighted_ruin = |rng: &mut Rng| -> (Arc<dyn Ruin>, String) {
        let n = rng.range_usize(2, 4);
        let groups: Vec<(Arc<dyn Ruin>, String)> = (0..n).map(|_| if rng.chance(0.7) { composite_ruin(rng) } else { ruins[rng.usize_below(ruins.len())].clone() }).collect();
        let text = groups.iter().map(|(_, t)| t.replace('|', ":")).collect::<Vec<_>>().join(" ; ");
        (Arc::new(WeightedRuin::new(groups.into_iter().map(|(r, _)| (r, rng.range_usize(1, 10))).collect())), format!("WeightedRuin|{text}"))
    };
    for (r, t) in ruins.iter() {
        let (name, params) = t.split_once('|').unwrap();
        ops.push(Op { name: name.to_string(), params: params.to_string(), kind: OpKind::Ruin, imp: OpImpl::Ruin(r.clone()) });
    }
    for _ in 0..2 {
        let (r, t) = composite_ruin(rng);
        ops.push(Op { name: "CompositeRuin".into(), params: t, kind: OpKind::Ruin, imp: OpImpl::Ruin(r) });
    }
    {
        let (r, t) = weighted_ruin(rng);
        ops.push(Op { name: "WeightedRuin".into(), params: t, kind: OpKind::Ruin, imp: OpImpl::Ruin(r) });
    }

    // ------------------------------------------------------------------ recreates (create_recreate_method)
    let mut recreates: Vec<(Arc<dyn Recreate>, String)> = Vec::new();
    {
        recreates.push((Arc::new(RecreateWithCheapest::new(random.clone())), "RecreateWithCheapest|".into()));
        let (a, b) = (rng.range_usize(1, 2), rng.range_usize(3, 5));
        recreates.push((Arc::new(RecreateWithRegret::new(a, b, random.clone())), format!("RecreateWithRegret|{a}..{b}")));
        let (a, b) = (rng.range_usize(1, 2), rng.range_usize(3, 20));
        recreates.push((Arc::new(RecreateWithGaps::new(a, b, random.clone())), format!("RecreateWithGaps|{a}..{b}")));
        recreates.push((Arc::new(RecreateWithBlinks::new_with_defaults(random.clone())), "RecreateWithBlinks|defaults".into()));
        recreates.push((Arc::new(RecreateWithFarthest::new(random.clone())), "RecreateWithFarthest|".into()));
        recreates.push((Arc::new(RecreateWithNearestNeighbor::new(random.clone())), "RecreateWithNearestNeighbor|".into()));
        let (a, b) = *rng.pick(&[(1usize, 2usize), (1, 4), (3, 4), (4, 8)]);
        recreates.push((Arc::new(RecreateWithSkipBest::new(a, b, random.clone())), format!("RecreateWithSkipBest|{a}..{b}")));
        recreates.push((Arc::new(RecreateWithSkipRandom::new(random.clone())), "RecreateWithSkipRandom|".into()));
        recreates.push((Arc::new(RecreateWithSlice::new(random.clone())), "RecreateWithSlice|".into()));
        if rng.chance(0.5) {
            recreates.push((Arc::new(RecreateWithPerturbation::new_with_defaults(random.clone())), "RecreateWithPerturbation|defaults".into()));
        } else {
            let (p, lo, hi) = (*rng.pick(&[0.05f64, 0.33, 1.0]), *rng.pick(&[-0.2f64, -0.5, 0.0]), *rng.pick(&[0.2f64, 0.5, 1.5]));
            let noise = Noise::new_with_addition(p, (lo, hi), random.clone());
            recreates.push((Arc::new(RecreateWithPerturbation::new(noise, random.clone())), format!("RecreateWithPerturbation|p={p} {lo}..{hi}")));
        }
    }
    let weighted_recreate = |rng: &mut Rng| -> (Arc<dyn Recreate>, String) {
        let n = rng.range_usize(2, 5);
        let inner: Vec<(Arc<dyn Recreate>, String)> = (0..n).map(|_| recreates[rng.usize_below(recreates.len())].clone()).collect();
        let text = inner.iter().map(|(_, t)| t.split('|').next().unwrap().to_string()).collect::<Vec<_>>().join("+");
        (Arc::new(WeightedRecreate::new(inner.into_iter().map(|(r, _)| (r, rng.range_usize(1, 10))).collect())), format!("WeightedRecreate|[{text}]"))
    };
    for (r, t) in recreates.iter() {
        let (name, params) = t.split_once('|').unwrap();
        ops.push(Op { name: name.to_string(), params: params.to_string(), kind: OpKind::Recreate, imp: OpImpl::Recreate(r.clone()) });
    }
    {
        let (r, t) = weighted_recreate(rng);
        ops.push(Op { name: "WeightedRecreate".into(), params: t, kind: OpKind::Recreate, imp: OpImpl::Recreate(r) });
        let phased: Arc<dyn Recreate> = Arc::new(RecreateWithSkipRandom::default_explorative_phased(Arc::new(RecreateWithCheapest::new(random.clone())), random.clone()));
        ops.push(Op { name: "PhasedRecreate".into(), params: "RecreateWithSkipRandom::default_explorative_phased(cheapest)".into(), kind: OpKind::Recreate, imp: OpImpl::Recreate(phased) });
    }
    let any_recreate = |rng: &mut Rng| -> (Arc<dyn Recreate>, String) { if rng.chance(0.25) { weighted_recreate(rng) } else { recreates[rng.usize_below(recreates.len())].clone() } };
    let any_ruin = |rng: &mut Rng| -> (Arc<dyn Ruin>, String) {
        match rng.usize_below(4) {
            0 => ruins[rng.usize_below(ruins.len())].clone(),
            1 => weighted_ruin(rng),
            _ => composite_ruin(rng),
        }
    };

    // ------------------------------------------------------------------ local operators (create_local_search)
    let mut locals: Vec<(Arc<dyn LocalOperator>, String)> = Vec::new();
    {
        let noise = |rng: &mut Rng| (*rng.pick(&[0.05f64, 0.5, 1.0]), *rng.pick(&[-0.25f64, 0.5, 0.9]), *rng.pick(&[0.25f64, 1.1, 1.5]));
        let default = rng.chance(0.5);
        let (p, lo, hi) = noise(rng);
        locals.push(if default { (Arc::new(ExchangeInterRouteBest::default()), "ExchangeInterRouteBest|default".into()) } else { (Arc::new(ExchangeInterRouteBest::new(p, lo.min(hi), hi.max(lo))), format!("ExchangeInterRouteBest|p={p} {lo}..{hi}")) });
        let default = rng.chance(0.5);
        let (p, lo, hi) = noise(rng);
        locals.push(if default { (Arc::new(ExchangeInterRouteRandom::default()), "ExchangeInterRouteRandom|default".into()) } else { (Arc::new(ExchangeInterRouteRandom::new(p, lo.min(hi), hi.max(lo))), format!("ExchangeInterRouteRandom|p={p} {lo}..{hi}")) });
        let default = rng.chance(0.5);
        let (p, lo, hi) = noise(rng);
        locals.push(if default { (Arc::new(ExchangeIntraRouteRandom::default()), "ExchangeIntraRouteRandom|default".into()) } else { (Arc::new(ExchangeIntraRouteRandom::new(p, lo.min(hi), hi.max(lo))), format!("ExchangeIntraRouteRandom|p={p} {lo}..{hi}")) });
        if rng.chance(0.5) {
            locals.push((Arc::new(ExchangeSequence::default()), "ExchangeSequence|default".into()));
        } else {
            let (n, rp, sp) = (rng.range_usize(2, 8), *rng.pick(&[0.0f64, 0.5, 1.0]), *rng.pick(&[0.01f64, 0.1, 1.0]));
            locals.push((Arc::new(ExchangeSequence::new(n, rp, sp)), format!("ExchangeSequence|max={n} reverse={rp} shuffle={sp}")));
        }
        let quota = *rng.pick(&[50usize, 200]);
        locals.push((Arc::new(ExchangeSwapStar::new(random.clone(), quota)), format!("ExchangeSwapStar|quota_limit={quota}")));
        locals.push((Arc::new(RescheduleDeparture::default()), "RescheduleDeparture|".into()));
    }
    let composite_local = |rng: &mut Rng| -> (Arc<dyn LocalOperator>, String) {
        let n = rng.range_usize(1, 4);
        let inner: Vec<(Arc<dyn LocalOperator>, String)> = (0..n).map(|_| locals[rng.usize_below(locals.len())].clone()).collect();
        let (lo, hi) = (rng.range_usize(1, 2), rng.range_usize(2, 4));
        let text = inner.iter().map(|(_, t)| t.split('|').next().unwrap().to_string()).collect::<Vec<_>>().join("+");
        (Arc::new(CompositeLocalOperator::new(inner.into_iter().map(|(o, _)| (o, rng.range_usize(1, 100))).collect(), lo, hi)), format!("CompositeLocalOperator|[{text}] times={lo}..{hi}"))
    };
    for (o, t) in locals.iter() {
        let (name, params) = t.split_once('|').unwrap();
        ops.push(Op { name: name.to_string(), params: params.to_string(), kind: OpKind::Local, imp: OpImpl::Local(o.clone()) });
    }
    {
        let (o, t) = composite_local(rng);
        ops.push(Op { name: "CompositeLocalOperator".into(), params: t, kind: OpKind::Local, imp: OpImpl::Local(o) });
    }
    let any_local = |rng: &mut Rng| -> (Arc<dyn LocalOperator>, String) { if rng.chance(0.4) { composite_local(rng) } else { locals[rng.usize_below(locals.len())].clone() } };

    // ------------------------------------------------------------------ search operators (create_operator, heuristic.rs)
    let ruin_recreate = |rng: &mut Rng| -> (TargetSearchOperator, String) {
        let (ru, rt) = any_ruin(rng);
        let (re, et) = any_recreate(rng);
        (Arc::new(RuinAndRecreate::new(ru, re)), format!("RuinAndRecreate|ruin={} recreate={}", rt.replace('|', ":"), et.replace('|', ":")))
    };
    let local_search = |rng: &mut Rng| -> (TargetSearchOperator, String) {
        let (lo, lt) = any_local(rng);
        (Arc::new(LocalSearch::new(lo)), format!("LocalSearch|{}", lt.replace('|', ":")))
    };
    // inner operator for decomposition / infeasible search: never one which relies on repair_solution_from_unknown
    // (documented restriction at create_default_heuristic_operator)
    let inner_search = |rng: &mut Rng| -> (TargetSearchOperator, String) {
        match rng.usize_below(4) {
            0 => (create_default_heuristic_operator(problem.clone(), environment.clone()), "DefaultHeuristicOperator".to_string()),
            1 => {
                let (a, at) = ruin_recreate(rng);
                let (b, bt) = local_search(rng);
                (Arc::new(WeightedHeuristicOperator::new(vec![a, b], vec![10, 1])), format!("Weighted[{at} ; {bt}]"))
            }
            2 => local_search(rng),
            _ => ruin_recreate(rng),
        }
    };
    for _ in 0..3 {
        let (o, t) = ruin_recreate(rng);
        let (name, params) = t.split_once('|').unwrap();
        ops.push(Op { name: name.to_string(), params: params.to_string(), kind: OpKind::Search, imp: OpImpl::Search(o) });
    }
    for _ in 0..2 {
        let (o, t) = local_search(rng);
        let (name, params) = t.split_once('|').unwrap();
        ops.push(Op { name: name.to_string(), params: params.to_string(), kind: OpKind::Search, imp: OpImpl::Search(o) });
    }
    for _ in 0..2 {
        let (inner, it) = inner_search(rng);
        let (max_routes, repeat) = (rng.range_usize(2, 4), rng.range_usize(1, 4));
        ops.push(Op {
            name: "DecomposeSearch".into(),
            params: format!("routes=2..{max_routes} repeat={repeat} quota_limit=200 inner={}", it.replace('|', ":")),
            kind: OpKind::Search,
            imp: OpImpl::Search(Arc::new(DecomposeSearch::new(inner, (2, max_routes), repeat, 200))),
        });
    }
    {
        let (re, et) = any_recreate(rng);
        ops.push(Op { name: "RedistributeSearch".into(), params: format!("recreate={}", et.replace('|', ":")), kind: OpKind::Search, imp: OpImpl::Search(Arc::new(RedistributeSearch::new(re))) });
        let (inner, it) = inner_search(rng);
        let (re, et) = if rng.chance(0.5) { (Arc::new(RecreateWithCheapest::new(random.clone())) as Arc<dyn Recreate>, "RecreateWithCheapest".to_string()) } else { any_recreate(rng) };
        let repeat = rng.range_usize(1, 4);
        ops.push(Op {
            name: "InfeasibleSearch".into(),
            params: format!("repeat<={repeat} shuffle=(0.05,0.2) skip=(0.33,0.75) recovery={} inner={}", et.replace('|', ":"), it.replace('|', ":")),
            kind: OpKind::Search,
            imp: OpImpl::Search(Arc::new(InfeasibleSearch::new(inner, re, repeat, (0.05, 0.2), (0.33, 0.75)))),
        });
        ops.push(Op { name: "LKHSearch.ImprovementOnly".into(), params: String::new(), kind: OpKind::Search, imp: OpImpl::Search(Arc::new(LKHSearch::new(LKHSearchMode::ImprovementOnly))) });
        ops.push(Op { name: "LKHSearch.Diverse".into(), params: String::new(), kind: OpKind::Search, imp: OpImpl::Search(Arc::new(LKHSearch::new(LKHSearchMode::Diverse))) });
        // the two combinators over a mix of everything above (as create_diversify_operators / get_static_heuristic compose them)
        let mut parts: Vec<(TargetSearchOperator, String)> = Vec::new();
        for _ in 0..rng.range_usize(2, 4) {
            parts.push(match rng.usize_below(5) {
                0 => ruin_recreate(rng),
                1 => local_search(rng),
                2 => (Arc::new(LKHSearch::new(LKHSearchMode::ImprovementOnly)), "LKHSearch.ImprovementOnly".into()),
                3 => {
                    let (re, et) = any_recreate(rng);
                    (Arc::new(RedistributeSearch::new(re)), format!("RedistributeSearch:{}", et.replace('|', ":")))
                }
                _ => {
                    let (inner, it) = inner_search(rng);
                    (Arc::new(DecomposeSearch::new(inner, (2, 3), 1, 200)), format!("DecomposeSearch:{}", it.replace('|', ":")))
                }
            });
        }
        let text = parts.iter().map(|(_, t)| t.replace('|', ":")).collect::<Vec<_>>().join(" ; ");
        let weights: Vec<usize> = parts.iter().map(|_| rng.range_usize(1, 10)).collect();
        ops.push(Op {
            name: "WeightedHeuristicOperator".into(),
            params: format!("[{text}] weights={weights:?}"),
            kind: OpKind::Search,
            imp: OpImpl::Search(Arc::new(WeightedHeuristicOperator::new(parts.iter().map(|(o, _)| o.clone()).collect(), weights))),
        });
        let probs: Vec<f64> = parts.iter().map(|_| *rng.pick(&[1.0f64, 0.5])).collect();
        ops.push(Op {
            name: "CompositeHeuristicOperator".into(),
            params: format!("[{text}] probabilities={probs:?}"),
            kind: OpKind::Search,
            imp: OpImpl::Search(Arc::new(CompositeHeuristicOperator::new(parts.iter().map(|(o, _)| o.clone()).zip(probs).collect()))),
        });
        ops.push(Op {
            name: "DefaultHeuristicOperator".into(),
            params: "create_default_heuristic_operator".into(),
            kind: OpKind::Search,
            imp: OpImpl::Search(create_default_heuristic_operator(problem.clone(), environment.clone())),
        });
    }

    // ------------------------------------------------------------------ hyper-heuristics (built lazily on first use)
    for (is_static, prefix) in [(true, "StaticSelective"), (false, "DynamicSelective")] {
        for (method, kind) in [("search", OpKind::HyperSearch), ("search_many", OpKind::HyperSearch), ("diversify", OpKind::HyperDiversify), ("diversify_many", OpKind::HyperDiversify)] {
            ops.push(Op {
                name: format!("{prefix}.{method}"),
                params: if is_static { "get_static_heuristic".into() } else { "get_dynamic_heuristic".into() },
                kind,
                imp: OpImpl::Hyper(is_static, method),
            });
        }
    }
    ops
}

// =================================================================================================
// refinement context and history plans

/// `RefinementContext` over a seeded population kind (config.rs: greedy / elitism / rosomaxa).
pub fn new_refinement_ctx(problem: Arc<Problem>, environment: Arc<Environment>, rng: &mut Rng) -> (RefinementContext, String) {
    let goal = problem.goal.clone();
    let (population, name): (TargetPopulation, String) = match rng.usize_below(3) {
        0 => {
            let n = rng.range_usize(1, 4);
            (Box::new(GreedyPopulation::new(goal, n, None)), format!("greedy({n})"))
        }
        1 => {
            let (m, n) = (rng.range_usize(1, 6), rng.range_usize(1, 4));
            (Box::new(ElitismPopulation::new(goal, environment.random.clone(), m, n)), format!("elitism({m},{n})"))
        }
        _ => {
            let mut config = RosomaxaConfig::new_with_defaults(rng.range_usize(2, 6));
            config.elite_size = rng.range_usize(1, 4);
            config.node_size = rng.range_usize(1, 4);
            config.exploration_ratio = *rng.pick(&[0.1f64, 0.5, 0.9]);
            match RosomaxaPopulation::new(Footprint::new(problem.as_ref()), goal.clone(), environment.clone(), config) {
                Ok(p) => (Box::new(p), "rosomaxa".to_string()),
                Err(_) => (Box::new(GreedyPopulation::new(goal, 1, None)), "greedy(1)".to_string()),
            }
        }
    };
    (RefinementContext::new(problem, population, TelemetryMode::None, environment), name)
}

/// A history plan: indices into the catalogue. A ruin is always followed by a recreate (a raw `Ruin::run` leaves jobs
/// in `required`); the plan is drawn from all operator families so that every shipped operator is reached.
pub fn gen_plan(rng: &mut Rng, cat: &Catalogue, steps: usize) -> Vec<usize> {
    let ruins = cat.indices_of(OpKind::Ruin);
    let recreates = cat.indices_of(OpKind::Recreate);
    let locals = cat.indices_of(OpKind::Local);
    let searches = cat.indices_of(OpKind::Search);
    let hypers: Vec<usize> = cat.indices_of(OpKind::HyperSearch).into_iter().chain(cat.indices_of(OpKind::HyperDiversify)).collect();
    // uniform inside a family: the plan depends on the case seed only (reproducible), call counts level out over the run
    let pick = |rng: &mut Rng, pool: &[usize]| -> usize { pool[rng.usize_below(pool.len())] };
    // development aid: VERIF_C04_FOCUS=<op name>[,<op name>..] gives the named operators half of the steps (triage of a finding)
    let focus: Vec<usize> = std::env::var("VERIF_C04_FOCUS")
        .ok()
        .map(|v| v.split(',').flat_map(|n| (0..cat.ops.len()).filter(move |i| cat.ops[*i].name == n.trim())).collect())
        .unwrap_or_default();
    let mut plan = Vec::new();
    while plan.len() < steps {
        if !focus.is_empty() && rng.chance(0.5) {
            let i = focus[rng.usize_below(focus.len())];
            plan.push(i);
            if cat.ops[i].kind == OpKind::Ruin {
                plan.push(pick(rng, &recreates));
            }
            continue;
        }
        match rng.weighted(&[0.30, 0.06, 0.22, 0.30, 0.12]) {
            0 => {
                plan.push(pick(rng, &ruins));
                // sometimes two ruins in a row before the recreate
                if rng.chance(0.15) {
                    plan.push(pick(rng, &ruins));
                }
                plan.push(pick(rng, &recreates));
            }
            1 => plan.push(pick(rng, &recreates)),
            2 => plan.push(pick(rng, &locals)),
            3 => plan.push(pick(rng, &searches)),
            _ => plan.push(pick(rng, &hypers)),
        }
    }
    plan
}

/// Silent environment with bounded parallelism.
pub fn new_environment(pools: usize, threads: usize, experimental: bool) -> Arc<Environment> {
    Arc::new(Environment::new(Arc::new(DefaultRandom::default()), None, vrp_core::rosomaxa::utils::Parallelism::new(pools, threads), Arc::new(|_: &str| {}), experimental))
}

/// True when the child is bound to the very problem (goal) of the parent: an operator working on a relaxed copy of the
/// problem has to hand back a solution of the original one.
pub fn same_problem(parent: &InsertionContext, child: &InsertionContext) -> bool {
    Arc::ptr_eq(&parent.problem, &child.problem)
}

/// Unassignment codes present (for evidence only).
pub fn unassigned_codes(ctx: &InsertionContext) -> Vec<i32> {
    let mut v: Vec<i32> = ctx
        .solution
        .unassigned
        .values()
        .map(|u| match u {
            UnassignmentInfo::Simple(c) => c.0,
            UnassignmentInfo::Detailed(_) => -2,
            UnassignmentInfo::Unknown => -1,
        })
        .collect();
    v.sort();
    v.dedup();
    v
}

// =================================================================================================
// oracle self-test

/// Seeds every kind of corruption the Inv clauses are written for into a small synthetic dump and reports, per
/// corruption, whether `check_inv`/`diff` raise exactly the expected clause (and nothing on the clean dump).
/// Pure data, no solver involved: it guards the monitor itself against rot (run at the start of every C04 run).
pub fn self_test() -> Vec<(String, bool)> {
    let act = |job: Option<&str>, sub: usize, of: usize, kind: &str, at: f64| ActDump {
        job: job.map(|s| s.to_string()),
        sub,
        of,
        kind: kind.to_string(),
        place_idx: 0,
        location: 1,
        tw: (0., 100.),
        duration: 1.,
        arrival: at,
        departure: at + 1.,
    };
    let facts = Facts {
        jobs: vec![
            JobFact { id: "j1".into(), kinds: vec!["delivery".into()], class: "customer".into() },
            JobFact { id: "j2".into(), kinds: vec!["pickup".into(), "delivery".into()], class: "customer".into() },
            JobFact { id: "j3".into(), kinds: vec!["delivery".into()], class: "customer".into() },
            JobFact { id: "a_break".into(), kinds: vec!["break".into()], class: "break".into() },
        ],
        actors: vec!["a#0".into(), "b#0".into()],
        locks: vec![LockFact { actors: vec!["a#0".into()], details: vec![LockDetailFact { order: "strict".into(), position: "departure".into(), jobs: vec!["j1".into(), "j3".into()] }] }],
    };
    let route_a = || RouteDump {
        actor: "a#0".into(),
        acts: vec![act(None, 0, 0, "", 0.), act(Some("j1"), 0, 1, "delivery", 1.), act(Some("j3"), 0, 1, "delivery", 2.), act(Some("j2"), 0, 2, "pickup", 3.), act(Some("j2"), 1, 2, "delivery", 4.), act(None, 0, 0, "", 5.)],
        tour_jobs: vec!["j1".into(), "j2".into(), "j3".into()],
        is_stale: false,
        state: vec![("k".into(), "v".into())],
    };
    let clean = || Dump { routes: vec![route_a()], required: vec![], ignored: vec!["a_break".into()], unassigned: vec![], locked: vec!["j1".into(), "j3".into()], available: vec!["b#0".into()], state: vec![] };
    let parent_locked: Vec<String> = vec!["j1".into(), "j3".into()];
    let clauses = |d: &Dump| -> BTreeSet<String> { check_inv(&facts, d, Some(&parent_locked)).into_iter().map(|f| f.clause).collect() };
    let mut out: Vec<(String, bool)> = Vec::new();
    out.push(("clean dump raises nothing".into(), clauses(&clean()).is_empty()));
    let mut expect = |name: &str, clause: &str, mutate: &dyn Fn(&mut Dump)| {
        let mut d = clean();
        mutate(&mut d);
        out.push((format!("{name} -> {clause}"), clauses(&d).contains(clause)));
    };
    expect("job twice in required", "job-in-two-places", &|d| {
        d.ignored.clear();
        d.required = vec!["a_break".into(), "a_break".into()];
    });
    expect("job in a route and in unassigned", "job-in-two-places", &|d| d.unassigned.push("j2".into()));
    expect("job nowhere", "job-lost", &|d| d.ignored.clear());
    expect("break twice in one route", "job-twice-in-route", &|d| {
        d.ignored.clear();
        let b = act(Some("a_break"), 0, 1, "break", 4.5);
        d.routes[0].acts.insert(5, b.clone());
        d.routes[0].acts.insert(5, b);
        d.routes[0].tour_jobs.push("a_break".into());
    });
    expect("id which is no job of the problem", "unknown-job", &|d| d.required.push("ghost".into()));
    expect("actor drives a route and is available", "registry-drift", &|d| d.available.push("a#0".into()));
    expect("actor neither used nor available", "registry-drift", &|d| d.available.clear());
    expect("actor drives two routes", "registry-drift", &|d| {
        let mut r = route_a();
        r.acts.retain(|a| a.job.is_none());
        r.tour_jobs.clear();
        d.routes.push(r);
    });
    expect("multi job split", "multi-job-split", &|d| d.routes[0].acts.remove(4).job.map(|_| ()).unwrap_or(()));
    expect("delivery before pickup", "multi-job-order", &|d| d.routes[0].acts.swap(3, 4));
    expect("locked job on another vehicle", "locked-job-moved", &|d| {
        let a = d.routes[0].acts.remove(1);
        d.routes[0].tour_jobs.retain(|j| j != "j1");
        d.available.clear();
        d.routes.push(RouteDump { actor: "b#0".into(), acts: vec![act(None, 0, 0, "", 0.), a, act(None, 0, 0, "", 9.)], tour_jobs: vec!["j1".into()], is_stale: false, state: vec![] });
    });
    expect("locked job removed", "locked-job-removed", &|d| {
        d.routes[0].acts.remove(2);
        d.routes[0].tour_jobs.retain(|j| j != "j3");
        d.required.push("j3".into());
    });
    expect("locked order reversed", "locked-order-broken", &|d| d.routes[0].acts.swap(1, 2));
    expect("job between strict neighbours", "locked-strict-broken", &|d| {
        let a = d.routes[0].acts.remove(3);
        let b = d.routes[0].acts.remove(3);
        d.routes[0].acts.insert(2, b);
        d.routes[0].acts.insert(2, a);
    });
    expect("strict relation not at departure", "locked-strict-broken", &|d| {
        let a = d.routes[0].acts.remove(3);
        let b = d.routes[0].acts.remove(3);
        d.routes[0].acts.insert(1, b);
        d.routes[0].acts.insert(1, a);
    });
    expect("locked set shrunk", "locked-set-shrunk", &|d| d.locked.retain(|j| j != "j1"));
    expect("depot terminal in the middle", "tour-frame-broken", &|d| d.routes[0].acts.swap(2, 5));
    expect("tour job index out of step", "tour-index-drift", &|d| d.routes[0].tour_jobs.retain(|j| j != "j2"));
    // (P) diff
    out.push(("identical dumps do not differ".into(), diff(&clean(), &clean()).is_none()));
    let mut expect_diff = |name: &str, mutate: &dyn Fn(&mut Dump)| {
        let mut d = clean();
        mutate(&mut d);
        out.push((format!("parent change: {name}"), diff(&clean(), &d).is_some()));
    };
    expect_diff("schedule of one activity", &|d| d.routes[0].acts[2].arrival += 0.5);
    expect_diff("order of two activities", &|d| d.routes[0].acts.swap(1, 2));
    expect_diff("stale flag", &|d| d.routes[0].is_stale = true);
    expect_diff("cached route state", &|d| d.routes[0].state[0].1 = "w".into());
    expect_diff("required list", &|d| d.required.push("j1".into()));
    expect_diff("registry", &|d| d.available.clear());
    expect_diff("solution state digest", &|d| d.state.push(("x".into(), "y".into())));
    out
}
