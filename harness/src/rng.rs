//! Deterministic PRNG for workload generation (xoshiro256** seeded through SplitMix64).
//! `VERIF_SEED` seeds *generators only*; see DESIGN.md §0.

#[derive(Clone, Debug)]
pub struct Rng {
    s: [u64; 4],
}

pub fn splitmix64(state: &mut u64) -> u64 {
    *state = state.wrapping_add(0x9E37_79B9_7F4A_7C15);
    let mut z = *state;
    z = (z ^ (z >> 30)).wrapping_mul(0xBF58_476D_1CE4_E5B9);
    z = (z ^ (z >> 27)).wrapping_mul(0x94D0_49BB_1331_11EB);
    z ^ (z >> 31)
}

/// Mixes a seed with a stream index into a new seed (used to derive per-case seeds).
pub fn mix(seed: u64, idx: u64) -> u64 {
    let mut s = seed ^ idx.wrapping_mul(0xD6E8_FEB8_6659_FD93).rotate_left(17) ^ 0xA076_1D64_78BD_642F;
    let a = splitmix64(&mut s);
    let b = splitmix64(&mut s);
    a ^ b.rotate_left(23)
}

impl Rng {
    pub fn new(seed: u64) -> Self {
        let mut st = seed;
        let s = [splitmix64(&mut st), splitmix64(&mut st), splitmix64(&mut st), splitmix64(&mut st)];
        Self { s }
    }

    /// Derives an independent generator.
    pub fn fork(&mut self) -> Rng {
        Rng::new(self.next_u64())
    }

    pub fn next_u64(&mut self) -> u64 {
        let result = self.s[1].wrapping_mul(5).rotate_left(7).wrapping_mul(9);
        let t = self.s[1] << 17;
        self.s[2] ^= self.s[0];
        self.s[3] ^= self.s[1];
        self.s[1] ^= self.s[2];
        self.s[0] ^= self.s[3];
        self.s[2] ^= t;
        self.s[3] = self.s[3].rotate_left(45);
        result
    }

    /// Uniform in `[0, n)`; returns 0 when `n == 0`.
    pub fn below(&mut self, n: u64) -> u64 {
        if n == 0 {
            return 0;
        }
        // multiply-shift, bias negligible for our n
        ((self.next_u64() as u128 * n as u128) >> 64) as u64
    }

    pub fn usize_below(&mut self, n: usize) -> usize {
        self.below(n as u64) as usize
    }

    /// Uniform integer in `[lo, hi]` (inclusive).
    pub fn range_i64(&mut self, lo: i64, hi: i64) -> i64 {
        if hi <= lo {
            return lo;
        }
        lo + self.below((hi - lo) as u64 + 1) as i64
    }

    pub fn range_usize(&mut self, lo: usize, hi: usize) -> usize {
        self.range_i64(lo as i64, hi as i64) as usize
    }

    /// Uniform float in `[0, 1)`.
    pub fn f64(&mut self) -> f64 {
        (self.next_u64() >> 11) as f64 / (1u64 << 53) as f64
    }

    pub fn range_f64(&mut self, lo: f64, hi: f64) -> f64 {
        lo + (hi - lo) * self.f64()
    }

    pub fn chance(&mut self, p: f64) -> bool {
        self.f64() < p
    }

    pub fn pick<'a, T>(&mut self, items: &'a [T]) -> &'a T {
        &items[self.usize_below(items.len())]
    }

    pub fn shuffle<T>(&mut self, items: &mut [T]) {
        for i in (1..items.len()).rev() {
            let j = self.usize_below(i + 1);
            items.swap(i, j);
        }
    }

    /// Picks an index according to non-negative weights.
    pub fn weighted(&mut self, weights: &[f64]) -> usize {
        let total: f64 = weights.iter().sum();
        if !(total > 0.) {
            return self.usize_below(weights.len());
        }
        let mut x = self.f64() * total;
        for (i, w) in weights.iter().enumerate() {
            if x < *w {
                return i;
            }
            x -= *w;
        }
        weights.len() - 1
    }
}
