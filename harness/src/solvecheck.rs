//! Shared driver of the end-to-end checks C01, C02, C03 (and reused by C07/C15): generate (G1) → read →
//! configure (G2) → solve through the CLI path → replay with O1 → report the issues of one property.

use crate::pragen::{GenCfg, PragProblem, generate_with_grid};
use crate::replay::{PProblem, Report, replay_parsed};
use crate::rng::{Rng, mix};
use crate::run::{Run, clip, par_for};
use crate::solverun::*;
use serde_json::{Value, json};
use std::sync::Arc;
use vrp_core::models::Problem;

pub struct Case {
    pub case_seed: u64,
    pub gp: PragProblem,
    pub config: Value,
    pub shape: ConfigShape,
}

/// Artefact holding everything the oracle needs to be re-run.
thread_local! {
    /// The initial solution of the warm-start case which the current thread is judging (recorded in its artefacts).
    static INIT_SOLUTION: std::cell::RefCell<Option<Value>> = const { std::cell::RefCell::new(None) };
}

pub fn artefact(case_seed: u64, gp: &PragProblem, config: &Value, solution: Option<&Value>, extra: Value) -> Value {
    json!({
        "init_solution": INIT_SOLUTION.with(|i| i.borrow().clone()),
        "case_seed": case_seed,
        "shape": gp.shape(),
        "problem": gp.problem,
        "matrices": gp.matrices,
        "config": config,
        "solution": solution,
        "extra": extra,
    })
}

/// Reports the issues of `prop` found by O1 as violations; returns number of issues of that property.
pub fn report_issues(run: &Run, prop: &str, rep: &Report, case_seed: u64, gp: &PragProblem, config: &Value, solution: &Value) -> usize {
    let mut n = 0;
    let mut seen = std::collections::BTreeSet::new();
    // issues of a warm-started solve say so in their signature
    let suffix = if gp.has("warm-start") { "|warm-start" } else { "" };
    for is in rep.issues.iter().filter(|i| i.prop == prop) {
        n += 1;
        let signature = format!("{}{suffix}", is.signature());
        if seen.insert(signature.clone()) {
            run.violation(&signature, &clip(&is.detail, 400), artefact(case_seed, gp, config, Some(solution), json!({"rule": is.rule, "detail": is.detail})));
        }
    }
    n
}

pub fn observe_report(run: &Run, rep: &Report) {
    for (r, (e, b)) in rep.rules.iter() {
        run.observe_n("rule_evaluated", r, *e);
        run.observe_n("rule_binding", r, *b);
    }
    for pz in rep.partial.iter() {
        run.observe("partially_replayed", pz);
    }
}

/// Derives relations from a clean solution: tour prefixes / sub-sequences of single-place single-window jobs.
pub fn derive_relations(rng: &mut Rng, p: &PProblem, rep: &Report) -> Vec<Value> {
    let mut rels = Vec::new();
    let simple = |id: &String| -> bool {
        p.job_index.get(id).is_some_and(|j| {
            let job = &p.jobs[*j];
            job.tasks.len() == 1 && job.tasks[0].places.len() == 1 && job.tasks[0].places[0].times.len() <= 1
        })
    };
    for (vid, si, jobs) in rep.tour_jobs.iter() {
        if !rng.chance(0.6) {
            continue;
        }
        let veh = p.vehicle_of(vid);
        // a sub-sequence of a tour with reloads is not feasible by itself (the reload that made room is dropped)
        if veh.and_then(|v| v.shifts.get(*si)).is_some_and(|s| !s.reloads.is_empty()) {
            continue;
        }
        let closed = veh.and_then(|v| v.shifts.get(*si)).is_some_and(|s| s.end.is_some());
        // mostly one relation per tour; sometimes two, taken from two consecutive parts of the tour (several relations may name
        // the same vehicle shift; listed in visiting order they are again a sub-sequence of the feasible tour)
        let parts: Vec<&[String]> = if jobs.len() >= 4 && rng.chance(0.6) {
            let cut = rng.range_usize(1, jobs.len() - 1);
            vec![&jobs[..cut], &jobs[cut..]]
        } else {
            vec![&jobs[..]]
        };
        let several = parts.len() > 1;
        for part in parts {
            // position rules of several relations on one shift are the least exercised combination: strict is drawn more often there
            let kind = if several { *rng.pick(&["any", "sequence", "strict", "strict", "strict"]) } else { *rng.pick(&["any", "sequence", "strict"]) };
            // always a sub-sequence of the feasible tour in visiting order (one entry per activity, so a multi-task job is
            // listed once per task as E1207 demands)
            let ids: Vec<String> = match kind {
                // only simple jobs for every relation type: multi-task jobs are positional in relations (the i-th mention is
                // the i-th task) and jobs with several places/windows are documented as unsupported in relations
                "any" => part.iter().filter(|j| simple(j) && rng.chance(0.5)).cloned().collect(),
                "sequence" => part.iter().filter(|j| simple(j) && rng.chance(0.6)).cloned().collect(),
                _ => {
                    // a contiguous run of simple jobs
                    let start = rng.usize_below(part.len().max(1));
                    part.iter().skip(start).take_while(|j| simple(j)).take(rng.range_usize(1, 4)).cloned().collect()
                }
            };
            let mut ids = ids;
            if ids.is_empty() {
                continue;
            }
            if kind == "strict" {
                // anchors only when the run really touches the tour end
                if jobs.first() == ids.first() && rng.chance(0.5) {
                    ids.insert(0, "departure".into());
                }
                if closed && jobs.last() == ids.last() && rng.chance(0.5) {
                    ids.push("arrival".into());
                }
            }
            let mut r = serde_json::Map::new();
            r.insert("type".into(), json!(kind));
            r.insert("jobs".into(), json!(ids));
            r.insert("vehicleId".into(), json!(vid));
            if *si > 0 || rng.chance(0.3) {
                r.insert("shiftIndex".into(), json!(si));
            }
            rels.push(Value::Object(r));
        }
    }
    rels
}

/// Observes the relation types of a derived relation list, and the type pairs of relations which share a vehicle shift.
pub fn observe_relations(run: &Run, rels: &[Value]) {
    for r in rels.iter() {
        run.observe("relation_types", r["type"].as_str().unwrap_or("?"));
    }
    let key = |r: &Value| (r["vehicleId"].as_str().unwrap_or("").to_string(), r["shiftIndex"].as_u64().unwrap_or(0));
    for (i, a) in rels.iter().enumerate() {
        for b in rels.iter().skip(i + 1) {
            if key(a) == key(b) {
                run.observe("relations_sharing_a_shift", &format!("{}+{}", a["type"].as_str().unwrap_or("?"), b["type"].as_str().unwrap_or("?")));
            }
        }
    }
}

/// Routing data of a problem read without matrices, as the solver sees it (unscaled, per declared profile).
pub fn matrices_from_transport(problem: &Problem, doc: &Value) -> Vec<Value> {
    use vrp_core::models::common::Profile;
    let n = PProblem::parse(doc, &[]).map(|p| p.locmap.len()).unwrap_or(0);
    doc["fleet"]["profiles"]
        .as_array()
        .into_iter()
        .flatten()
        .enumerate()
        .map(|(k, p)| {
            let profile = Profile::new(k, None);
            let mut times = Vec::with_capacity(n * n);
            let mut dists = Vec::with_capacity(n * n);
            for a in 0..n {
                for b in 0..n {
                    // the approximation is integral (the matrix model holds integers); keep integers in the document
                    times.push(problem.transport.duration_approx(&profile, a, b).round() as i64);
                    dists.push(problem.transport.distance_approx(&profile, a, b).round() as i64);
                }
            }
            json!({"profile": p["name"], "travelTimes": times, "distances": dists})
        })
        .collect()
}

pub struct SolveResult {
    pub solution: Value,
    pub report: Report,
}

pub enum CaseOutcome {
    /// Solved and replayed.
    Done(SolveResult),
    /// Generator output rejected by the reader (not a verdict on this property).
    Invalid(Vec<String>),
    ReadPanic(crate::run::PanicInfo),
    SolveErr(String),
    SolvePanic(crate::run::PanicInfo),
    /// Solution is not in the documented format / O1 cannot replay it.
    ReplayErr(String, Value),
}

pub fn solve_and_replay(problem: Arc<Problem>, gp: &PragProblem, config: &Value) -> CaseOutcome {
    solve_and_replay_from(problem, gp, config, None)
}

/// `init`: a solution document of the same problem handed to the solver as initial solution (warm start).
pub fn solve_and_replay_from(problem: Arc<Problem>, gp: &PragProblem, config: &Value, init: Option<&Value>) -> CaseOutcome {
    let outcome = match init {
        Some(init) => crate::solverun::solve_with_config_and_init(problem, config, init),
        None => solve_with_config(problem, config),
    };
    replay_outcome(outcome, gp)
}

/// Judges the outcome of a solve which the caller ran itself.
pub fn replay_outcome(outcome: SolveOutcome, gp: &PragProblem) -> CaseOutcome {
    match outcome {
        SolveOutcome::Ok(text) => {
            let solution: Value = match serde_json::from_str(&text) {
                Ok(v) => v,
                Err(e) => return CaseOutcome::ReplayErr(format!("solution is not JSON: {e}"), Value::Null),
            };
            let parsed = match PProblem::parse(&gp.problem, &gp.matrices) {
                Ok(p) => p,
                Err(e) => return CaseOutcome::ReplayErr(format!("O1 cannot parse the problem: {e}"), solution),
            };
            match replay_parsed(&parsed, &solution) {
                Ok(report) => CaseOutcome::Done(SolveResult { solution, report }),
                Err(e) => CaseOutcome::ReplayErr(e, solution),
            }
        }
        SolveOutcome::Err(e) => CaseOutcome::SolveErr(e),
        SolveOutcome::Panic(p) => CaseOutcome::SolvePanic(p),
    }
}

fn panic_signature(prop: &str, stage: &str, p: &crate::run::PanicInfo, gp: &PragProblem) -> String {
    // file (no line) + a normalised message head + implicated features
    let msg: String = p.message.chars().filter(|c| !c.is_ascii_digit()).take(48).collect();
    let mut ctx: Vec<&str> = Vec::new();
    for f in ["reloads", "reload-resource", "breaks", "required-breaks", "recharge", "clustering"] {
        if gp.has(f) {
            ctx.push(f);
        }
    }
    format!("{prop}|{stage}-panic|{}|{}|{}", p.file(), msg.trim(), ctx.join("+"))
}

/// Third phase: limits tightened to just below what a fresh solution uses, so that max-distance / max-duration /
/// tour-size / shift-end become BINDING rules (the randomly drawn limits of G1 rarely are). The problem stays valid:
/// a tighter limit only moves jobs to the unassigned list. Returns the modified problem and the kinds tightened.
pub fn tighten_limits(rng: &mut Rng, gp: &PragProblem, solution: &Value) -> Option<(PragProblem, Vec<&'static str>)> {
    use std::collections::BTreeMap;
    // per vehicle type: max distance, duration, job activities; per (type, shift): latest arrival at the last stop
    let mut dist: BTreeMap<String, f64> = BTreeMap::new();
    let mut dur: BTreeMap<String, f64> = BTreeMap::new();
    let mut size: BTreeMap<String, i64> = BTreeMap::new();
    let mut last_arrival: BTreeMap<(String, usize), i64> = BTreeMap::new();
    for t in solution["tours"].as_array()? {
        let ty = t["typeId"].as_str()?.to_string();
        let d = t["statistic"]["distance"].as_f64()?;
        let u = t["statistic"]["duration"].as_f64()?;
        let jobs: std::collections::BTreeSet<&str> = t["stops"]
            .as_array()?
            .iter()
            .flat_map(|s| s["activities"].as_array().into_iter().flatten())
            .filter(|a| matches!(a["type"].as_str(), Some("pickup" | "delivery" | "service" | "replacement")))
            .filter_map(|a| a["jobId"].as_str())
            .collect();
        let e = dist.entry(ty.clone()).or_insert(0.0);
        *e = e.max(d);
        let e = dur.entry(ty.clone()).or_insert(0.0);
        *e = e.max(u);
        let e = size.entry(ty.clone()).or_insert(0);
        *e = (*e).max(jobs.len() as i64);
        let arr = t["stops"].as_array()?.last().and_then(|s| s["time"]["arrival"].as_str()).and_then(crate::timeutil::parse_time)?;
        let e = last_arrival.entry((ty, t["shiftIndex"].as_u64().unwrap_or(0) as usize)).or_insert(i64::MIN);
        *e = (*e).max(arr);
    }
    let mut out = gp.clone();
    let mut kinds: Vec<&'static str> = Vec::new();
    let which: Vec<bool> = (0..4).map(|_| rng.chance(0.5)).collect();
    for v in out.problem["fleet"]["vehicles"].as_array_mut()? {
        let ty = v["typeId"].as_str()?.to_string();
        let f = 0.55 + 0.43 * rng.f64();
        if which[0] {
            if let Some(d) = dist.get(&ty).filter(|d| **d >= 4.0) {
                v["limits"]["maxDistance"] = json!((d * f).floor().max(1.0));
                kinds.push("limit-distance");
            }
        }
        if which[1] {
            if let Some(u) = dur.get(&ty).filter(|u| **u >= 4.0) {
                v["limits"]["maxDuration"] = json!((u * f).floor().max(1.0));
                kinds.push("limit-duration");
            }
        }
        if which[2] {
            if let Some(n) = size.get(&ty).filter(|n| **n >= 2) {
                v["limits"]["tourSize"] = json!((*n - rng.range_i64(1, (*n - 1).min(3))).max(1));
                kinds.push("limit-size");
            }
        }
        if which[3] {
            for (si, shift) in v["shifts"].as_array_mut()?.iter_mut().enumerate() {
                let Some(arr) = last_arrival.get(&(ty.clone(), si)) else { continue };
                let Some(start) = shift["start"]["earliest"].as_str().and_then(crate::timeutil::parse_time) else { continue };
                let Some(end) = shift.get("end").filter(|e| e.is_object()) else { continue };
                let Some(latest) = end["latest"].as_str().and_then(crate::timeutil::parse_time) else { continue };
                let cut = arr - rng.range_i64(1, ((arr - start) / 3).max(1));
                // keep every break / reload window of the shift inside it: only cut when nothing is declared behind the cut
                fn times_of(v: &Value, out: &mut Vec<i64>) {
                    match v {
                        Value::String(t) => out.extend(crate::timeutil::parse_time(t)),
                        Value::Array(a) => a.iter().for_each(|x| times_of(x, out)),
                        Value::Object(m) => m.values().for_each(|x| times_of(x, out)),
                        _ => {}
                    }
                }
                let mut declared = Vec::new();
                times_of(shift, &mut declared);
                let declared_behind = declared.iter().filter(|t| **t > cut).count() > 1 || shift.get("breaks").is_some();
                if cut > start + 2 && cut < latest && !declared_behind && end.get("earliest").is_none() {
                    shift["end"]["latest"] = json!(crate::timeutil::fmt_time(cut));
                    kinds.push("shift-end");
                }
            }
        }
    }
    if kinds.is_empty() {
        return None;
    }
    kinds.sort();
    kinds.dedup();
    for k in kinds.iter().filter(|k| k.starts_with("limit-")) {
        out.features.insert(k.to_string());
    }
    out.features.insert("tightened".into());
    Some((out, kinds))
}

/// Tier-dependent generator configuration with a per-property emphasis.
pub fn gen_cfg_for(prop: &str, rng: &mut Rng, thorough: bool) -> GenCfg {
    let mut cfg = GenCfg::default();
    cfg.max_jobs = if thorough { *rng.pick(&[20usize, 40, 60, 120]) } else { *rng.pick(&[12usize, 25, 40]) };
    match prop {
        "C01" => {
            // vicinity clustering merges jobs before the search: the hard rules of the merged jobs (compatibility, skills,
            // demand, groups, tour size ...) must survive the merge; O1 replays such tours partially (no commute times)
            cfg.p_clustering = 0.12;
        }
        "C02" => {
            // conservation: many routes (decomposition), multi jobs, reload markers, tight capacity
            cfg.p_multi_jobs = 1.0;
            cfg.p_reloads = 0.4;
            cfg.p_breaks = 0.4;
            cfg.min_jobs = 8;
            // conservation is also judged under the features O1 replays only partially (times are not compared there)
            cfg.p_clustering = 0.25;
            cfg.p_recharge = 0.15;
            cfg.p_required_breaks = 0.15;
        }
        "C03" => {
            // reproducibility: several activities per stop, waiting, scale, reload legs, open ends, multi-place tasks
            cfg.p_scale = 0.35;
            cfg.p_multi_places = 0.5;
            cfg.p_time_windows = 0.9;
            cfg.p_open_end = 0.4;
            // the reported tag must be the one of the place used: half of the problems tag the places of multi-place tasks
            // sparsely (an untagged place in front of a tagged one), which no reader of the solution needs to be dense
            cfg.sparse_place_tags = rng.chance(0.5);
            // recharge stations: O1 does not recompute their times from the matrices, but the statistic of such a tour must still
            // agree with the stops and activities the tour itself reports (weak rules W1-W4 of O1). Required breaks stay outside
            // this workload: a probe with them (2026-09-29) showed that the writer of reserved times (break_writer.rs) reports a
            // break in the statistic which the tour does not show (break moved to the previous stop, break during the last
            // activity of an open tour), see DESIGN.md C03 "Bound"
            cfg.p_recharge = 0.06;
        }
        _ => {}
    }
    cfg
}

/// Rewrites about half of the `...Z` timestamps of a problem document into the same instant with another UTC offset.
pub fn rewrite_times_with_offsets(rng: &mut Rng, v: &mut Value) -> usize {
    match v {
        Value::String(text) => {
            if text.len() == 20 && text.ends_with('Z') && rng.chance(0.5) {
                if let Some(t) = crate::timeutil::parse_time(text) {
                    // mostly offsets of a few minutes - the time scale of the generated tours - so that a misread window still
                    // overlaps the shift and gets used
                    let (off, suffix) = *rng.pick(&[(60i64, "+00:01"), (-120, "-00:02"), (180, "+00:03"), (-60, "-00:01"), (7_200, "+02:00"), (0, "+00:00")]);
                    let local = crate::timeutil::fmt_time(t + off);
                    *text = format!("{}{suffix}", local.trim_end_matches('Z'));
                    return 1;
                }
            }
            0
        }
        Value::Array(a) => a.iter_mut().map(|c| rewrite_times_with_offsets(rng, c)).sum(),
        // the shift start is left alone: rule E1307 compares `start.earliest` and `start.latest` as TEXT (observed: the same
        // instant in two notations is rejected there - validation is C10's subject, not C03's)
        Value::Object(m) => m.iter_mut().filter(|(k, _)| k.as_str() != "start").map(|(_, c)| rewrite_times_with_offsets(rng, c)).sum(),
        _ => 0,
    }
}

/// The C01/C02/C03 workload. Every solve is judged by O1; only issues of `prop` are reported by this run.
pub fn run_end_to_end(run: &Run, prop: &'static str) {
    let thorough = !run.is_quick();
    // C01: rules that bind in few problem shapes only (route-level rules of multi jobs after an infeasible-space search ...) show
    // up in a few solves per thousand, so its quick tier runs twice as many solves as C02 / C03
    let cases: u64 = run.by_tier(if prop == "C01" { 1_800 } else { 900 }, 20_000);
    let max_gens = run.by_tier(40usize, 200usize);
    par_for(4, cases, &|| !run.has_time(), &|i| {
        let case_seed = mix(run.seed, i);
        let mut rng = Rng::new(case_seed);
        let gcfg = gen_cfg_for(prop, &mut rng, thorough);
        let (mut gp, grid) = generate_with_grid(&mut rng, &gcfg);
        // a share of the cases uses geo coordinates without matrices: the reader builds its approximation and O1 is
        // given exactly those numbers (read back from the provider, which C16 checks independently)
        let coord_share = if prop == "C03" { 0.25 } else { 0.12 };
        let as_coordinates = rng.chance(coord_share);
        if as_coordinates {
            if let Some(c) = gp.to_coordinates(&grid) {
                gp = c;
            }
        }
        // C03: the same instants written with a UTC offset other than Z (RFC 3339 allows both; solutions are always written
        // with Z): a reader which keeps the local time of day instead of the instant shifts every such window
        if prop == "C03" && rng.chance(0.3) && rewrite_times_with_offsets(&mut rng, &mut gp.problem) > 0 {
            gp.features.insert("time-offsets".into());
        }
        let (config, shape) = gen_config(&mut rng, max_gens, None);
        let problem = match read_problem(&gp) {
            ReadOutcome::Ok(p) => {
                if gp.has("coordinates") {
                    gp.matrices = matrices_from_transport(&p, &gp.problem);
                }
                p
            }
            ReadOutcome::Err(codes, _) => {
                run.inconclusive(&format!("generated problem rejected by reader: {codes:?}"));
                return;
            }
            ReadOutcome::Panic(p) => {
                if prop == "C01" {
                    run.eval();
                    run.violation(&panic_signature(prop, "read", &p, &gp), &format!("reader panicked on a generated valid problem: {} at {}", p.message, p.location), artefact(case_seed, &gp, &config, None, p.to_json()));
                } else {
                    run.inconclusive("reader panic (reported by C01/C10)");
                }
                return;
            }
        };
        judge_case(run, prop, case_seed, &gp, &config, &shape, problem.clone(), "base");

        // C01 / C02: warm start. "Whatever configuration produced the solution" includes an initial solution: a quick first solve
        // gives a feasible solution (reloads, breaks and all), which is handed back as initial solution of the judged solve
        // (vrp-cli solve --init-solution); what comes out must be as valid as the result of a cold start
        if (prop == "C01" || prop == "C02") && !gp.has("clustering") && rng.chance(0.3) && run.has_time() {
            let first_cfg = simple_config(rng.range_usize(2, 25), 1, 4);
            let mut gp_w = gp.clone();
            gp_w.features.insert("warm-start".into());
            if rng.chance(0.5) {
                // the document path (vrp-cli solve --init-solution)
                if let CaseOutcome::Done(first) = solve_and_replay(problem.clone(), &gp, &first_cfg) {
                    if first.report.is_clean() && first.report.tours > 0 {
                        judge_case_from(run, prop, case_seed, &gp_w, &config, &shape, problem.clone(), "warm-start", Some(&first.solution));
                    }
                }
            } else {
                // the library path: the core Solution of the first solve (detailed unassignment reasons and all) is the initial solution
                let (first, second) = crate::solverun::solve_twice_through_core_solution(problem.clone(), &first_cfg, &config);
                if let (CaseOutcome::Done(first), Some(second)) = (replay_outcome(first, &gp), second) {
                    if first.report.is_clean() && first.report.tours > 0 {
                        INIT_SOLUTION.with(|i| *i.borrow_mut() = Some(first.solution.clone()));
                        judge_outcome(run, prop, case_seed, &gp_w, &config, &shape, "warm-start (core solution)", replay_outcome(second, &gp));
                    }
                }
            }
        }

        // C02: relations (locked jobs) on top of everything else, in particular on top of vicinity clustering, whose reader
        // must keep relation jobs out of the clusters. The relations come from a feasible solution of the same problem
        // WITHOUT clustering (relation jobs are never clustered, so they stay consistent when clustering is switched on).
        if prop == "C02" && !gp.has("required-breaks") && !gp.has("recharge") && rng.chance(if gp.has("clustering") { 0.8 } else { 0.25 }) && run.has_time() {
            let mut base_gp = gp.clone();
            if let Some(plan) = base_gp.problem["plan"].as_object_mut() {
                plan.remove("clustering");
            }
            let base_problem = if gp.has("clustering") {
                match read_problem(&base_gp) {
                    ReadOutcome::Ok(p) => Some(p),
                    _ => None,
                }
            } else {
                Some(problem.clone())
            };
            let base_cfg = simple_config(rng.range_usize(5, 30), 1, 4);
            if let Some(CaseOutcome::Done(res)) = base_problem.map(|p| solve_and_replay(p, &base_gp, &base_cfg)) {
                if res.report.is_clean() {
                    if let Ok(parsed) = PProblem::parse(&base_gp.problem, &base_gp.matrices) {
                        let rels = derive_relations(&mut rng, &parsed, &res.report);
                        if !rels.is_empty() {
                            let mut gp2 = gp.clone();
                            gp2.problem["plan"]["relations"] = Value::Array(rels.clone());
                            gp2.features.insert("relations".into());
                            observe_relations(run, &rels);
                            match read_problem(&gp2) {
                                ReadOutcome::Ok(p2) => judge_case(run, prop, case_seed, &gp2, &config, &shape, p2, if gp.has("clustering") { "relations+clustering" } else { "relations" }),
                                ReadOutcome::Err(codes, text) => run.inconclusive(&format!("derived relations rejected: {codes:?} {}", clip(&text, 120))),
                                ReadOutcome::Panic(_) => run.inconclusive("reader panic (reported by C01/C10)"),
                            }
                        }
                    }
                }
            }
        }

        // second / third phase for a share of the cases, both derived from a fresh feasible solution (C01 emphasis):
        // relations consistent with the constraints, and limits tightened until they bind
        if prop == "C01" && rng.chance(0.5) && run.has_time() {
            let base_cfg = simple_config(rng.range_usize(5, 30), 1, 4);
            if let CaseOutcome::Done(res) = solve_and_replay(problem, &gp, &base_cfg) {
                if res.report.is_clean() && rng.chance(0.4) {
                    if let Some((gp3, kinds)) = tighten_limits(&mut rng, &gp, &res.solution) {
                        for k in kinds.iter() {
                            run.observe("tightened", k);
                        }
                        match read_problem(&gp3) {
                            ReadOutcome::Ok(p3) => judge_case(run, prop, case_seed, &gp3, &config, &shape, p3, "tightened"),
                            ReadOutcome::Err(codes, text) => run.inconclusive(&format!("tightened problem rejected: {codes:?} {}", clip(&text, 120))),
                            ReadOutcome::Panic(p) => {
                                run.eval();
                                run.violation(&panic_signature(prop, "read", &p, &gp3), &format!("reader panicked on a problem with tightened limits: {} at {}", p.message, p.location), artefact(case_seed, &gp3, &config, None, p.to_json()));
                            }
                        }
                    }
                } else if res.report.is_clean() {
                    // jobs named in relations stay outside clusters: a tour of the clustered problem (shorter service inside a
                    // cluster, commute instead of driving) is not a consistent source of relations, so they are taken from a
                    // feasible tour of the same problem solved without clustering
                    let source = if gp.has("clustering") {
                        let mut base_gp = gp.clone();
                        if let Some(plan) = base_gp.problem["plan"].as_object_mut() {
                            plan.remove("clustering");
                        }
                        match read_problem(&base_gp) {
                            ReadOutcome::Ok(p) => match solve_and_replay(p, &base_gp, &base_cfg) {
                                CaseOutcome::Done(r) if r.report.is_clean() => Some(r),
                                _ => None,
                            },
                            _ => None,
                        }
                    } else {
                        Some(res)
                    };
                    if let (Some(res), Ok(parsed)) = (source, PProblem::parse(&gp.problem, &gp.matrices)) {
                        let rels = derive_relations(&mut rng, &parsed, &res.report);
                        if !rels.is_empty() {
                            if gp.has("clustering") {
                                run.observe("phase", "relations on top of clustering");
                            }
                            let mut gp2 = gp.clone();
                            gp2.problem["plan"]["relations"] = Value::Array(rels.clone());
                            gp2.features.insert("relations".into());
                            observe_relations(run, &rels);
                            match read_problem(&gp2) {
                                ReadOutcome::Ok(p2) => judge_case(run, prop, case_seed, &gp2, &config, &shape, p2, "relations"),
                                ReadOutcome::Err(codes, text) => run.inconclusive(&format!("derived relations rejected: {codes:?} {}", clip(&text, 120))),
                                ReadOutcome::Panic(p) => {
                                    run.eval();
                                    run.violation(&panic_signature(prop, "read", &p, &gp2), &format!("reader panicked on relations derived from a feasible tour: {} at {}", p.message, p.location), artefact(case_seed, &gp2, &config, None, p.to_json()));
                                }
                            }
                        }
                    }
                }
            }
        }
    });
}

#[allow(clippy::too_many_arguments)]
fn judge_case(run: &Run, prop: &'static str, case_seed: u64, gp: &PragProblem, config: &Value, shape: &ConfigShape, problem: Arc<Problem>, phase: &str) {
    judge_case_from(run, prop, case_seed, gp, config, shape, problem, phase, None)
}

struct ResetInit;
impl Drop for ResetInit {
    fn drop(&mut self) {
        INIT_SOLUTION.with(|i| *i.borrow_mut() = None);
    }
}

#[allow(clippy::too_many_arguments)]
fn judge_case_from(run: &Run, prop: &'static str, case_seed: u64, gp: &PragProblem, config: &Value, shape: &ConfigShape, problem: Arc<Problem>, phase: &str, init: Option<&Value>) {
    INIT_SOLUTION.with(|i| *i.borrow_mut() = init.cloned());
    let outcome = solve_and_replay_from(problem, gp, config, init);
    judge_outcome(run, prop, case_seed, gp, config, shape, phase, outcome)
}

#[allow(clippy::too_many_arguments)]
fn judge_outcome(run: &Run, prop: &'static str, case_seed: u64, gp: &PragProblem, config: &Value, shape: &ConfigShape, phase: &str, outcome: CaseOutcome) {
    let _reset = ResetInit;
    match outcome {
        CaseOutcome::SolveErr(e) if e.starts_with("init-solution:") => {
            run.inconclusive("warm start: the solver's own solution was not accepted as initial solution (C11's subject)");
        }
        CaseOutcome::Done(res) => {
            run.eval();
            observe_report(run, &res.report);
            for f in gp.features.iter() {
                run.observe("features", f);
            }
            for o in shape.operators.iter() {
                run.observe("config_operators", o);
            }
            run.observe("config_population", &shape.population);
            run.observe("config_hyper", &shape.hyper);
            run.observe("config_parallelism", &shape.parallelism);
            run.observe("phase", phase);
            let n = report_issues(run, prop, &res.report, case_seed, gp, config, &res.solution);
            // non-trivial: at least one tour and (a rule binding or a job unassigned)
            let binding = res.report.rules.iter().any(|(r, (_, b))| *b > 0 && !["stop-load", "tour-statistic", "total-statistic", "conservation", "skills", "compatibility", "group"].contains(&r.as_str()));
            if res.report.tours > 0 && (binding || res.report.unassigned_jobs > 0) {
                run.nontrivial(&format!("{}|{}|{}", gp.shape(), shape.key(), phase));
            }
            if run.wants_sample() {
                run.sample(json!({"case_seed": case_seed, "phase": phase, "problem_shape": gp.shape(), "config_shape": shape.key(), "tours": res.report.tours,
                    "assigned": res.report.assigned_jobs, "unassigned": res.report.unassigned_jobs, "activities": res.report.activities, "issues_of_property": n,
                    "first_tour": res.solution["tours"].get(0).map(|t| json!({"vehicleId": t["vehicleId"], "statistic": t["statistic"], "stops": t["stops"].as_array().map_or(0, |s| s.len())}))}));
            }
        }
        CaseOutcome::SolveErr(e) => {
            if prop == "C01" {
                run.eval();
                let head: String = e.chars().filter(|c| !c.is_ascii_digit()).collect::<String>();
                let key = if let Some(i) = head.find("Error:") { clip(&head[i..], 80) } else { clip(&head, 80) };
                run.violation(&format!("C01|solve-error|{key}"), &format!("solver returned an error on a valid problem: {}", clip(&e, 300)), artefact(case_seed, gp, config, None, json!({"error": e})));
            } else {
                run.inconclusive("solver error (reported by C01)");
            }
        }
        CaseOutcome::SolvePanic(p) => {
            if prop == "C01" {
                run.eval();
                run.violation(&panic_signature(prop, "solve", &p, gp), &format!("solver panicked on a valid problem: {} at {}", p.message, p.location), artefact(case_seed, gp, config, None, p.to_json()));
            } else {
                run.inconclusive("solver panic (reported by C01)");
            }
        }
        CaseOutcome::ReplayErr(e, solution) => {
            run.eval();
            run.violation(&format!("{prop}|solution-not-in-documented-format|{}", clip(&e, 60)), &format!("solution document cannot be replayed: {e}"), artefact(case_seed, gp, config, Some(&solution), json!({"error": e})));
        }
        CaseOutcome::Invalid(_) | CaseOutcome::ReadPanic(_) => {}
    }
}

/// `--replay`: re-run O1 on the recorded documents.
pub fn replay_artefact(run: &Run, prop: &'static str, path: &std::path::Path) {
    let Ok(text) = std::fs::read_to_string(path) else {
        println!("INCONCLUSIVE cannot read {}", path.display());
        std::process::exit(2);
    };
    let doc: Value = serde_json::from_str(&text).unwrap_or(Value::Null);
    let a = &doc["artefact"];
    let matrices: Vec<Value> = a["matrices"].as_array().cloned().unwrap_or_default();
    run.eval();
    if a["solution"].is_null() {
        println!("artefact holds no solution (panic/error case): recorded {}", a["extra"]);
        println!("best-effort reproduction: re-solving the recorded problem with the recorded config");
        let gp = PragProblem { problem: a["problem"].clone(), matrices: matrices.clone(), features: Default::default(), jobs: 0, vehicles: 0, locations: 0 };
        if let ReadOutcome::Ok(problem) = read_problem(&gp) {
            for k in 0..20 {
                judge_case(run, prop, a["case_seed"].as_u64().unwrap_or(0) + k, &gp, &a["config"], &ConfigShape::default(), problem.clone(), "replay");
            }
        }
        return;
    }
    match crate::replay::replay(&a["problem"], &matrices, &a["solution"]) {
        Ok(rep) => {
            let gp = PragProblem { problem: a["problem"].clone(), matrices, features: Default::default(), jobs: 0, vehicles: 0, locations: 0 };
            let n = report_issues(run, prop, &rep, a["case_seed"].as_u64().unwrap_or(0), &gp, &a["config"], &a["solution"]);
            println!("replay: O1 reports {n} issue(s) of {prop} on the recorded documents");
            for is in rep.issues.iter() {
                println!("  {} {}", is.signature(), clip(&is.detail, 300));
            }
        }
        Err(e) => println!("replay: O1 cannot replay: {e}"),
    }
}
