//! Run bookkeeping shared by every check: CLI, budget, verdict accounting, known findings,
//! VIOLATION / KNOWN-FINDING lines, replay artefacts and the evidence file.
//!
//! Verdicts are three-valued per case (held / violated / inconclusive) and never folded.
//! Exit codes: 0 held (+ coverage floors met), 1 at least one unlisted violation, 2 inconclusive
//! (harness failure or coverage floor missed; no VIOLATION line is printed for that).

use serde_json::{Value, json};
use std::collections::{BTreeMap, BTreeSet, HashSet};
use std::hash::{Hash, Hasher};
use std::path::{Path, PathBuf};
use std::sync::Mutex;
use std::sync::atomic::{AtomicU64, Ordering};
use std::time::{Duration, Instant};

#[derive(Clone, Copy, Debug, PartialEq, Eq)]
pub enum Tier {
    Quick,
    Thorough,
}

impl Tier {
    pub fn as_str(&self) -> &'static str {
        match self {
            Tier::Quick => "quick",
            Tier::Thorough => "thorough",
        }
    }
}

#[derive(Clone, Debug)]
struct Finding {
    property: String,
    signature: String,
    status: String,
    what: String,
}

#[derive(Default)]
struct Inner {
    distinct: HashSet<u64>,
    samples: Vec<Value>,
    tables: BTreeMap<String, BTreeMap<String, u64>>,
    inconclusive: BTreeMap<String, u64>,
    violations_by_sig: BTreeMap<String, (u64, String)>, // signature -> (count, first replay path)
    known_hits: BTreeMap<String, (u64, String)>,        // signature -> (count, what)
    floors_missed: Vec<String>,
    assumptions: Vec<String>,
    notes: BTreeMap<String, Value>,
    artefacts_written: u64,
}

pub struct Run {
    pub prop: String,
    pub tier: Tier,
    pub seed: u64,
    pub replay: Option<PathBuf>,
    level: String,
    rule: String,
    start: Instant,
    budget: Duration,
    evaluations: AtomicU64,
    findings: Vec<Finding>,
    inner: Mutex<Inner>,
    verif_root: PathBuf,
    max_samples: usize,
}

fn hash_str(s: &str) -> u64 {
    let mut h = std::collections::hash_map::DefaultHasher::new();
    s.hash(&mut h);
    h.finish()
}

pub fn verif_root() -> PathBuf {
    if let Ok(root) = std::env::var("VERIF_ROOT") {
        return PathBuf::from(root);
    }
    PathBuf::from("/verif")
}

impl Run {
    /// Parses `--tier quick|thorough --seed N [--replay path] [--budget secs]` (env `VERIF_SEED`, `VERIF_TIER`
    /// are used as defaults) and loads `known_findings.json`.
    /// `level` is `exploration` or `fault_enumeration`; `rule` says how cases are generated and what makes one
    /// distinct and non-trivial. `quick_s`/`thorough_s` are the default workload budgets in seconds
    /// (a budget only stops case generation; it never decides a verdict).
    pub fn from_args(prop: &str, level: &str, rule: &str, quick_s: u64, thorough_s: u64) -> Run {
        install_panic_monitor();
        let args: Vec<String> = std::env::args().collect();
        let mut tier = match std::env::var("VERIF_TIER").ok().as_deref() {
            Some("thorough") => Tier::Thorough,
            _ => Tier::Quick,
        };
        let mut tier_from_arg = false;
        let mut seed: u64 = std::env::var("VERIF_SEED").ok().and_then(|s| s.trim().parse::<i64>().ok()).map(|v| v as u64).unwrap_or(1);
        let mut replay = None;
        let mut budget = None;
        let mut i = 1;
        while i < args.len() {
            match args[i].as_str() {
                "--tier" => {
                    i += 1;
                    tier = if args.get(i).map(|s| s.as_str()) == Some("thorough") { Tier::Thorough } else { Tier::Quick };
                    tier_from_arg = true;
                }
                "--seed" => {
                    i += 1;
                    if let Some(v) = args.get(i).and_then(|s| s.parse::<i64>().ok()) {
                        seed = v as u64;
                    }
                }
                "--replay" => {
                    i += 1;
                    replay = args.get(i).map(PathBuf::from);
                }
                "--budget" => {
                    i += 1;
                    budget = args.get(i).and_then(|s| s.parse::<u64>().ok());
                }
                _ => {}
            }
            i += 1;
        }
        let _ = tier_from_arg;
        let budget_s = budget
            .or_else(|| std::env::var("VERIF_BUDGET_S").ok().and_then(|s| s.parse().ok()))
            .unwrap_or(if tier == Tier::Quick { quick_s } else { thorough_s });
        let root = verif_root();
        let findings = load_findings(&root.join("known_findings.json"));
        Run {
            prop: prop.to_string(),
            tier,
            seed,
            replay,
            level: level.to_string(),
            rule: rule.to_string(),
            start: Instant::now(),
            budget: Duration::from_secs(budget_s),
            evaluations: AtomicU64::new(0),
            findings,
            inner: Mutex::new(Inner::default()),
            verif_root: root,
            max_samples: 4,
        }
    }

    pub fn is_quick(&self) -> bool {
        self.tier == Tier::Quick
    }

    /// Picks a value by tier.
    pub fn by_tier<T>(&self, quick: T, thorough: T) -> T {
        if self.is_quick() { quick } else { thorough }
    }

    pub fn elapsed(&self) -> Duration {
        self.start.elapsed()
    }

    /// True while the workload budget is not used up. A `fraction` < 1 lets a check split its budget in phases.
    pub fn has_time(&self) -> bool {
        self.start.elapsed() < self.budget
    }

    pub fn has_time_frac(&self, fraction: f64) -> bool {
        self.start.elapsed().as_secs_f64() < self.budget.as_secs_f64() * fraction
    }

    pub fn budget(&self) -> Duration {
        self.budget
    }

    /// Counts one evaluated case (an oracle verdict on one execution).
    pub fn eval(&self) {
        self.evaluations.fetch_add(1, Ordering::Relaxed);
    }

    pub fn eval_n(&self, n: u64) {
        self.evaluations.fetch_add(n, Ordering::Relaxed);
    }

    pub fn evaluations(&self) -> u64 {
        self.evaluations.load(Ordering::Relaxed)
    }

    /// Registers a case that is non-trivial by the check's rule; `key` identifies the case so that
    /// duplicates are counted once (`distinct_nontrivial` = number of distinct keys).
    pub fn nontrivial(&self, key: &str) {
        let h = hash_str(key);
        self.inner.lock().unwrap().distinct.insert(h);
    }

    pub fn distinct_nontrivial(&self) -> u64 {
        self.inner.lock().unwrap().distinct.len() as u64
    }

    /// Keeps a literal sample of an explored case (the first few are kept).
    pub fn sample(&self, value: Value) {
        let mut inner = self.inner.lock().unwrap();
        if inner.samples.len() < self.max_samples {
            inner.samples.push(value);
        }
    }

    pub fn wants_sample(&self) -> bool {
        self.inner.lock().unwrap().samples.len() < self.max_samples
    }

    /// Observation table: `coverage.observed[table][key] += 1`.
    pub fn observe(&self, table: &str, key: &str) {
        self.observe_n(table, key, 1);
    }

    pub fn observe_n(&self, table: &str, key: &str, n: u64) {
        let mut inner = self.inner.lock().unwrap();
        *inner.tables.entry(table.to_string()).or_default().entry(key.to_string()).or_default() += n;
    }

    pub fn observed(&self, table: &str, key: &str) -> u64 {
        self.inner.lock().unwrap().tables.get(table).and_then(|t| t.get(key)).copied().unwrap_or(0)
    }

    pub fn observed_keys(&self, table: &str) -> Vec<String> {
        self.inner.lock().unwrap().tables.get(table).map(|t| t.keys().cloned().collect()).unwrap_or_default()
    }

    /// A case that could not be decided (precondition not met, generator rejected, watchdog...).
    pub fn inconclusive(&self, reason: &str) {
        let mut inner = self.inner.lock().unwrap();
        *inner.inconclusive.entry(reason.to_string()).or_default() += 1;
    }

    pub fn assume(&self, text: &str) {
        let mut inner = self.inner.lock().unwrap();
        if !inner.assumptions.iter().any(|a| a == text) {
            inner.assumptions.push(text.to_string());
        }
    }

    pub fn note(&self, key: &str, value: Value) {
        self.inner.lock().unwrap().notes.insert(key.to_string(), value);
    }

    /// Coverage floor: if `value < min` the run ends INCONCLUSIVE (exit 2) unless a violation was found.
    pub fn floor(&self, name: &str, value: u64, min: u64) {
        if value < min {
            self.inner.lock().unwrap().floors_missed.push(format!("{name}: observed {value} < required {min}"));
        }
    }

    pub fn is_known(&self, signature: &str) -> bool {
        self.findings.iter().any(|f| f.property == self.prop && f.status == "known" && f.signature == signature)
    }

    /// Reports a violation. `signature` names the failing input class / call site (stable across runs and
    /// derived from the workload, not from line numbers); `what` is a one-line description; `artefact`
    /// holds everything needed to re-run the oracle (`--replay`).
    /// Listed known findings are counted and printed as KNOWN-FINDING at the end; everything else
    /// prints a VIOLATION line at once (first artefact per signature is written to /verif/replays).
    pub fn violation(&self, signature: &str, what: &str, artefact: Value) {
        let known = self.findings.iter().find(|f| f.property == self.prop && f.status == "known" && f.signature == signature);
        let mut inner = self.inner.lock().unwrap();
        if let Some(f) = known {
            let e = inner.known_hits.entry(signature.to_string()).or_insert((0, f.what.clone()));
            e.0 += 1;
            return;
        }
        if let Some(e) = inner.violations_by_sig.get_mut(signature) {
            e.0 += 1;
            return;
        }
        if let Some(original) = &self.replay {
            // replay mode: the artefact already exists, never overwrite recorded artefacts
            println!("VIOLATION property={} replay={}", self.prop, original.display());
            println!("  signature: {signature}");
            println!("  what: {what}");
            inner.violations_by_sig.insert(signature.to_string(), (1, original.display().to_string()));
            return;
        }
        let dir = self.verif_root.join("replays");
        let _ = std::fs::create_dir_all(&dir);
        let n = inner.artefacts_written;
        inner.artefacts_written += 1;
        let variant = std::env::var("VERIF_VARIANT").ok().filter(|v| !v.is_empty()).map(|v| format!("-{v}")).unwrap_or_default();
        let path = dir.join(format!("{}-{}{variant}-s{}-{}.json", self.prop, self.tier.as_str(), self.seed, n));
        let doc = json!({
            "property": self.prop,
            "signature": signature,
            "what": what,
            "seed": self.seed,
            "tier": self.tier.as_str(),
            "artefact": artefact,
        });
        let _ = std::fs::write(&path, serde_json::to_string_pretty(&doc).unwrap_or_default());
        println!("VIOLATION property={} replay={}", self.prop, path.display());
        println!("  signature: {signature}");
        println!("  what: {what}");
        inner.violations_by_sig.insert(signature.to_string(), (1, path.display().to_string()));
    }

    /// Is `signature` a listed (status known) finding of ANOTHER property? Used by checks which re-judge whole
    /// solutions (C07, C15): a defect already listed under C01-C03 is reported as KNOWN-FINDING, not as a new violation.
    pub fn known_for(&self, prop: &str, signature: &str) -> Option<String> {
        self.findings.iter().find(|f| f.property == prop && f.status == "known" && f.signature == signature).map(|f| f.what.clone())
    }

    /// Counts a hit of a finding listed under another property.
    pub fn known_hit(&self, signature: &str, what: &str) {
        let mut inner = self.inner.lock().unwrap();
        let e = inner.known_hits.entry(signature.to_string()).or_insert((0, what.to_string()));
        e.0 += 1;
    }

    pub fn violation_count(&self) -> u64 {
        self.inner.lock().unwrap().violations_by_sig.values().map(|v| v.0).sum()
    }

    /// Runs `f` under the panic monitor; a panic is returned as `Err(PanicInfo)`.
    pub fn guard<T>(&self, f: impl FnOnce() -> T) -> Result<T, PanicInfo> {
        guard(f)
    }

    /// Writes the evidence file, prints the summary and terminates the process with the verdict's exit code.
    pub fn finish(&self) -> ! {
        let wall = self.start.elapsed().as_secs_f64();
        let inner = self.inner.lock().unwrap();
        let violations: u64 = inner.violations_by_sig.values().map(|v| v.0).sum();
        let observed: serde_json::Map<String, Value> = inner
            .tables
            .iter()
            .map(|(t, m)| (t.clone(), Value::Object(m.iter().map(|(k, v)| (k.clone(), json!(v))).collect())))
            .collect();
        let mut coverage = serde_json::Map::new();
        coverage.insert("evaluations".into(), json!(self.evaluations()));
        coverage.insert("distinct_nontrivial".into(), json!(inner.distinct.len()));
        coverage.insert("rule".into(), json!(self.rule));
        coverage.insert("samples".into(), Value::Array(inner.samples.clone()));
        coverage.insert("observed".into(), Value::Object(observed));
        coverage.insert(
            "inconclusive_cases".into(),
            Value::Object(inner.inconclusive.iter().map(|(k, v)| (k.clone(), json!(v))).collect()),
        );
        coverage.insert(
            "known_findings_hit".into(),
            Value::Object(inner.known_hits.iter().map(|(k, v)| (k.clone(), json!(v.0))).collect()),
        );
        coverage.insert(
            "violation_signatures".into(),
            Value::Object(inner.violations_by_sig.iter().map(|(k, v)| (k.clone(), json!({"count": v.0, "replay": v.1}))).collect()),
        );
        coverage.insert("coverage_floors_missed".into(), json!(inner.floors_missed));
        for (k, v) in inner.notes.iter() {
            coverage.insert(k.clone(), v.clone());
        }
        let doc = json!({
            "property_id": self.prop,
            "tier": self.tier.as_str(),
            "seed": self.seed as i64,
            "level": self.level,
            "build_variant": std::env::var("VERIF_VARIANT").ok().filter(|v| !v.is_empty()).unwrap_or_else(|| "debug assertions and overflow checks on".into()),
            "coverage": Value::Object(coverage),
            "assumptions": inner.assumptions,
            "wall_s": (wall * 1000.).round() / 1000.,
            "violations": violations,
        });
        if self.replay.is_none() {
            let dir = self.verif_root.join("evidence");
            let _ = std::fs::create_dir_all(&dir);
            // a second build variant of the same check (VERIF_VARIANT=nodebug: no debug assertions, as shipped binaries are
            // built) runs right after the main one and adds what it observed to the main run's evidence file
            let variant = std::env::var("VERIF_VARIANT").ok().filter(|v| !v.is_empty());
            let path = dir.join(format!("{}.json", self.prop));
            let doc = match &variant {
                None => doc,
                Some(v) => {
                    let main = std::fs::read_to_string(&path).ok().and_then(|s| serde_json::from_str::<Value>(&s).ok());
                    let Some(mut main) = main else {
                        println!("INCONCLUSIVE property={} the main run's evidence file is missing, cannot add build variant {v}", self.prop);
                        std::process::exit(2);
                    };
                    let mut second = doc["coverage"].clone();
                    if let Some(o) = second.as_object_mut() {
                        o.remove("rule");
                        o.insert("wall_s".into(), doc["wall_s"].clone());
                        o.insert("violations".into(), doc["violations"].clone());
                    }
                    main["coverage"][format!("second_run_build_variant_{v}")] = second;
                    main["violations"] = json!(main["violations"].as_i64().unwrap_or(0) + violations as i64);
                    main["wall_s"] = json!(main["wall_s"].as_f64().unwrap_or(0.) + (wall * 1000.).round() / 1000.);
                    main
                }
            };
            if let Err(err) = std::fs::write(&path, serde_json::to_string_pretty(&doc).unwrap()) {
                println!("INCONCLUSIVE property={} cannot write evidence: {err}", self.prop);
                std::process::exit(2);
            }
        }
        for (sig, (n, what)) in inner.known_hits.iter() {
            println!("KNOWN-FINDING: property={} {} [{}] (observed {} times in this run)", self.prop, what, sig, n);
        }
        let inconclusive: u64 = inner.inconclusive.values().sum();
        println!(
            "SUMMARY property={} tier={} seed={} evaluations={} distinct_nontrivial={} inconclusive_cases={} known_finding_hits={} violations={} wall_s={:.1}",
            self.prop,
            self.tier.as_str(),
            self.seed,
            self.evaluations(),
            inner.distinct.len(),
            inconclusive,
            inner.known_hits.values().map(|v| v.0).sum::<u64>(),
            violations,
            wall
        );
        for (t, m) in inner.tables.iter() {
            let total: u64 = m.values().sum();
            let mut items: Vec<_> = m.iter().collect();
            items.sort_by(|a, b| b.1.cmp(a.1));
            let shown = items.iter().take(12).map(|(k, v)| format!("{k}={v}")).collect::<Vec<_>>().join(" ");
            println!("  observed[{t}] keys={} total={total}: {shown}{}", m.len(), if m.len() > 12 { " ..." } else { "" });
        }
        if violations > 0 {
            std::process::exit(1);
        }
        if !inner.floors_missed.is_empty() {
            for f in inner.floors_missed.iter() {
                println!("INCONCLUSIVE property={} coverage floor missed: {f}", self.prop);
            }
            std::process::exit(2);
        }
        std::process::exit(0);
    }
}

fn load_findings(path: &Path) -> Vec<Finding> {
    let Ok(text) = std::fs::read_to_string(path) else { return vec![] };
    let Ok(doc) = serde_json::from_str::<Value>(&text) else {
        println!("INCONCLUSIVE cannot parse {}", path.display());
        std::process::exit(2);
    };
    let list = doc.get("findings").and_then(|f| f.as_array()).cloned().unwrap_or_default();
    list.iter()
        .filter_map(|f| {
            Some(Finding {
                property: f.get("property")?.as_str()?.to_string(),
                signature: f.get("signature")?.as_str()?.to_string(),
                status: f.get("status")?.as_str()?.to_string(),
                what: f.get("what").and_then(|w| w.as_str()).unwrap_or("").to_string(),
            })
        })
        .collect()
}

// ---------------------------------------------------------------------------------------------
// panic monitor

#[derive(Clone, Debug)]
pub struct PanicInfo {
    pub message: String,
    /// `file:line` of the panic site with the `/repo/` prefix stripped (empty if unknown).
    pub location: String,
}

impl PanicInfo {
    /// `file` part of the location without the line number: stable signature component.
    pub fn file(&self) -> String {
        self.location.split(':').next().unwrap_or("").to_string()
    }

    pub fn to_json(&self) -> Value {
        json!({"message": self.message, "location": self.location})
    }
}

static PANICS: Mutex<Vec<(String, String)>> = Mutex::new(Vec::new());
static QUIET: std::sync::atomic::AtomicBool = std::sync::atomic::AtomicBool::new(true);
static HOOK: std::sync::Once = std::sync::Once::new();

fn payload_to_string(payload: &(dyn std::any::Any + Send)) -> String {
    if let Some(s) = payload.downcast_ref::<&str>() {
        s.to_string()
    } else if let Some(s) = payload.downcast_ref::<String>() {
        s.clone()
    } else {
        "<non-string panic payload>".to_string()
    }
}

/// Installs the process-wide panic hook which records message + location of every panic (also
/// those raised on rayon workers, which rayon re-raises on the installing thread).
pub fn install_panic_monitor() {
    HOOK.call_once(|| {
        let default = std::panic::take_hook();
        std::panic::set_hook(Box::new(move |info| {
            let message = payload_to_string(info.payload());
            let location = info
                .location()
                .map(|l| format!("{}:{}", l.file().trim_start_matches("/repo/"), l.line()))
                .unwrap_or_default();
            if let Ok(mut p) = PANICS.lock() {
                if p.len() > 10_000 {
                    p.clear();
                }
                p.push((message, location));
            }
            if !QUIET.load(Ordering::Relaxed) {
                default(info);
            }
        }));
    });
}

/// Lets panics print their default message (useful when debugging the harness itself).
pub fn set_panic_quiet(quiet: bool) {
    QUIET.store(quiet, Ordering::Relaxed);
}

pub fn guard<T>(f: impl FnOnce() -> T) -> Result<T, PanicInfo> {
    install_panic_monitor();
    match std::panic::catch_unwind(std::panic::AssertUnwindSafe(f)) {
        Ok(v) => Ok(v),
        Err(payload) => {
            let message = payload_to_string(payload.as_ref());
            let location = PANICS
                .lock()
                .ok()
                .and_then(|mut p| {
                    let pos = p.iter().rposition(|(m, _)| *m == message);
                    pos.map(|i| p.remove(i).1)
                })
                .unwrap_or_default();
            Err(PanicInfo { message, location })
        }
    }
}

/// Runs `cases` on `threads` OS threads (each case index exactly once), stopping early when `stop()` is true.
pub fn par_for(threads: usize, cases: u64, stop: &(dyn Fn() -> bool + Sync), f: &(dyn Fn(u64) + Sync)) {
    let next = AtomicU64::new(0);
    std::thread::scope(|scope| {
        for _ in 0..threads.max(1) {
            scope.spawn(|| {
                loop {
                    if stop() {
                        break;
                    }
                    let i = next.fetch_add(1, Ordering::Relaxed);
                    if i >= cases {
                        break;
                    }
                    f(i);
                }
            });
        }
    });
}

/// Truncates a long text for the use in messages.
pub fn clip(s: &str, n: usize) -> String {
    if s.len() <= n { s.to_string() } else { format!("{}…", s.chars().take(n).collect::<String>()) }
}

pub fn sorted_set(items: impl IntoIterator<Item = String>) -> Vec<String> {
    items.into_iter().collect::<BTreeSet<_>>().into_iter().collect()
}
