//! vverif: runtime-monitoring harness for reinterpretcat/vrp (see /verif/DESIGN.md).
//! One binary per property under src/bin/cNN.rs; shared generators/oracles live here.
#![allow(clippy::too_many_arguments, clippy::type_complexity)]

pub mod histories;
pub mod micro;
pub mod pragen;
pub mod refvalidate;
pub mod replay;
pub mod rng;
pub mod run;
pub mod solvecheck;
pub mod solverun;
pub mod timeutil;

pub use rng::{Rng, mix};
pub use run::{PanicInfo, Run, Tier, clip, guard, par_for};
