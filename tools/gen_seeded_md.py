#!/usr/bin/env python3
"""Fills the <!-- SEEDED:BEGIN --> … <!-- SEEDED:END --> block of DESIGN.md from seeded/*/meta.json."""
import json, glob, os, re
root = os.path.dirname(os.path.dirname(os.path.abspath(__file__)))
def clip(s, n):
    s = ' '.join(str(s).split()).replace('|', '\\|')
    return s if len(s) <= n else s[:n - 1].rstrip() + '…'
rows = []
for d in sorted(glob.glob(f'{root}/seeded/C*/')):
    name = os.path.basename(d.rstrip('/'))
    try:
        m = json.load(open(d + 'meta.json'))
    except Exception as e:
        m = {}
    checks = m.get('checks_run_against_it', {})
    caught = [f"**{k.replace('./check ', '')}**: {clip(v, 230)}" for k, v in checks.items() if str(v).startswith('exit 1')]
    silent = [f"{k.replace('./check ', '')}: {clip(v, 160)}" for k, v in checks.items() if not str(v).startswith('exit 1')]
    rows.append(f"| `{name}` ({', '.join(os.path.basename(f) for f in m.get('files_changed', []) or [])}): {clip(m.get('summary', ''), 260)} | {clip(m.get('what_it_needs_to_manifest', ''), 260)} | {' <br> '.join(caught) or '–'} | {' <br> '.join(silent) or '–'} |")
missed = [r for r in rows if 'NOT DETECTED' in r]
table = "| Seeded change | Needs to manifest | Caught by | Silent (why) |\n|---|---|---|---|\n" + "\n".join(rows) + f"\n\n{len(rows)} seeded changes; {len(rows) - len(missed)} are caught by the check of their own property within the `quick` budget (some only after the check was strengthened, see below), {len(missed)} not detected (reason in the last column).\n"
p = f'{root}/DESIGN.md'
s = open(p).read()
s2 = re.sub(r'<!-- SEEDED:BEGIN -->.*?<!-- SEEDED:END -->', lambda _: '<!-- SEEDED:BEGIN -->\n' + table + '<!-- SEEDED:END -->', s, flags=re.S)
open(p, 'w').write(s2)
print('rows', len(rows), 'changed', s != s2)
