#!/usr/bin/env python3
"""Regenerates /verif/MANIFEST.json from the table below (keeps it valid at all times)."""
import json, os, subprocess
ROOT = os.path.dirname(os.path.dirname(os.path.abspath(__file__)))

HOOK_COMMITS = ["6e51e51"]

# id -> (ready, category, technique, level text, level note, design ref)
CHECKS = {
}

NOT_YET = "check not built yet in this round (planned as a runtime monitor, see DESIGN.md §3)"

def main():
    props = [json.loads(l)["id"] for l in open(os.path.join(ROOT, "properties.jsonl"))]
    checks, na = [], []
    for pid in props:
        c = CHECKS.get(pid)
        if not c or not c["ready"]:
            na.append({"property_id": pid, "reason": (c or {}).get("na_reason", NOT_YET)})
            continue
        checks.append({
            "property_id": pid,
            "quick_cmd": f"./check {pid} quick",
            "thorough_cmd": f"./check {pid} thorough",
            "evidence_file": f"/verif/evidence/{pid}.json",
            "replay_cmd_template": f"./check {pid} --replay {{path}}",
            "engine": "vverif",
            "level_claimed": {"category": c["category"], "text": c["text"], "design_ref": c["design_ref"]},
            "level_note": c["note"],
            "technique": c["technique"],
        })
    manifest = {
        "version": 1,
        "setup_cmd": "./setup.sh",
        "hooks": {
            "guard": "--cfg reinterpretcat_vrp_verif",
            "enable": "harness/.cargo/config.toml sets build.rustflags = [\"--cfg\", \"reinterpretcat_vrp_verif\"]; every ./check builds /repo's crates as path dependencies with it",
            "baseline_off_cmd": "cd /repo && cargo nextest run --workspace --no-fail-fast --test-threads 8 --offline",
            "source_commits": HOOK_COMMITS,
            "add_only": True,
        },
        "engines": [{
            "name": "vverif",
            "path": "/verif/harness",
            "serves_properties": [c["property_id"] for c in checks],
            "kind_free_text": "Rust harness crate (one binary per property) linking the real /repo crates with hooks on, debug assertions and overflow checks enabled; generated hostile workloads, independent oracles/reference models, panic monitor; runtime monitoring only",
        }],
        "checks": checks,
        "not_applicable": na,
        "notes": "Runtime monitoring family only. Exit 0 = held on everything explored and coverage floors met; 1 = VIOLATION (unlisted); 2 = INCONCLUSIVE (never printed with a VIOLATION line). Known findings: /verif/known_findings.json.",
    }
    json.dump(manifest, open(os.path.join(ROOT, "MANIFEST.json"), "w"), indent=1)
    print("checks:", len(checks), "not_applicable:", len(na))

if __name__ == "__main__":
    main()
