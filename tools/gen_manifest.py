#!/usr/bin/env python3
"""Regenerates /verif/MANIFEST.json from the table below (keeps it valid at all times)."""
import json, os, subprocess
ROOT = os.path.dirname(os.path.dirname(os.path.abspath(__file__)))

HOOK_COMMITS = ["6e51e51"]

# id -> (ready, category, technique, level text, level note, design ref)
CHECKS = {
    "C01": dict(ready=True, category="exploration", technique="runtime monitoring: offline checker (independent solution replayer O1) over recorded end-to-end solver outputs on generated problems x configs x thread layouts, panic monitor",
        text="Every solution returned by the real solver (CLI JSON-config path) on several hundred (quick) to tens of thousands (thorough) generated valid problems x generated solver configurations is replayed by an oracle written from the documentation only; each documented hard rule is evaluated per tour and the evidence lists how often each rule was evaluated and binding. Exploration is the right level: the quantifier ranges over inputs x configurations x schedules, which only workload diversity can sample.",
        note="Trusts O1 (harness/src/replay.rs) and the generator's validity; required breaks, recharge, clustering, time-dependent matrices are outside the workload; solver not seed-replayable (replay re-runs the oracle on recorded documents).", design_ref="DESIGN.md §3 C01"),
    "C02": dict(ready=True, category="exploration", technique="runtime monitoring: conservation checker (offline, over recorded solver outputs) - plan jobs = assigned (+) unassigned as exact multiset partition",
        text="Conservation oracle of O1 over the same kind of recorded end-to-end runs, biased to multi-task jobs, reload markers, breaks and many routes: every plan job exactly once (all tasks, one tour, pickups first) or once in unassigned with a reason; tours name existing vehicle shifts, one tour per shift, every tour serves a job; break/reload stops matched injectively to the shift's own definitions.",
        note="Trusts O1's activity matching (job id, task type, location, tag); clustering/required breaks/recharge outside the workload.", design_ref="DESIGN.md §3 C02"),
    "C07": dict(ready=True, category="fault_enumeration", technique="runtime monitoring with injected faults: counting Quota (public trait) fired at every enumerated poll index, solutions judged offline by O1, generations counted by a hyper-heuristic wrapper",
        text="The interruption point is enumerated deterministically in logical time: a quota that turns true at its k-th poll, for every k up to the measured number of polls of a solve (all of them in thorough for N <= 6000; every k below a cap plus a stride in quick), x generation limits {1,2,7,50}; every run must return Ok within a bounded number of further polls with a solution O1 finds valid, and never more search rounds than configured. Fault enumeration is the right level because the property quantifies over crash points, which can be listed exhaustively per run.",
        note="Poll positions of the multi-threaded solver are not code locations; O1 judges validity; time limits only sampled; generation limit 0 outside the property.", design_ref="DESIGN.md §3 C07"),
    "C16": dict(ready=True, category="exploration", technique="runtime monitoring: reference-model monitor - generated matrix sets queried exhaustively per (profile, from, to, time class) against a spec written from the property text",
        text="Generated asymmetric, pairwise-distinct, multi-profile, multi-timestamp matrix sets are fed to the real providers (core constructors, pragmatic reader incl. errorCodes/scale/location mapping, approximation, scientific) and every query (all actors x pairs x time classes before/at/between/after) is compared with an independent spec; inconsistent sets must be rejected.",
        note="Whole-second non-negative times; undocumented acceptance cases are recorded as unspecified, not judged.", design_ref="DESIGN.md §3 C16"),
    "C18": dict(ready=True, category="exploration", technique="runtime monitoring: invariant monitor on the slot-machine state after every update with a recording distribution sampler, telemetry-parsing monitor for DynamicSelective, reference window/CV model for MinVariation, range monitor for termination estimates",
        text="Reward streams over 12 hostile classes (0, denormal ... 1e6) drive SlotMachine directly; after every update alpha/beta/v/mu invariants are asserted and every sampler call is checked by a recording sampler; DynamicSelective runs over scalar and N-objective contexts with own operators and its telemetry is parsed; termination estimates and the variation criterion are compared with an own model, unspecified boundary cases never decide.",
        note="|fitness| <= 1e150; undocumented estimator details (Bessel correction, signed mean) unspecified.", design_ref="DESIGN.md §3 C18"),
    "C15": dict(ready=True, category="exploration", technique="runtime monitoring over schedules: same evaluation repeated under rayon pools of 1..16 threads with injected yields/sleeps at the task-interleaving point and per-worker recording, compared with a sequential reference scan; full solves under every pool layout judged by O1",
        text="(a) PositionInsertionEvaluator::evaluate_all is run on the same InsertionContext under pools of 1,2,3,4,7,16 threads x repetitions with delays injected through the result selector (where rayon tasks interleave); result kind and cost vector must equal the lexicographic minimum of an independent nested sequential loop; the evidence counts distinct per-thread work partitions actually observed. (b) solves under ten pools x threads layouts are replayed by O1. Exploration over schedules is the right level: reduction-order bugs only show when the partitioning varies.",
        note="Metric routing, default objectives, single-task jobs for the evaluator clause (multi-task permutations are sampled randomly); identity of job/route not compared (ties).", design_ref="DESIGN.md §3 C15"),
    "C19": dict(ready=True, category="exploration", technique="runtime monitoring: structural invariant monitor evaluated after every public operation on the GSOM network (own capacity-enforcing, counting storage) and on the Rosomaxa population (via NetworkState), over hostile input streams",
        text="After every store_batch/smooth/compact/on_generation the map is walked: unique coordinates equal to node identity, exact find(), finite weights of input dimension, storage within capacity, finite error measures, compaction never grows nor leaves < 4 nodes, conservation of stored individuals, phases only forward, elite within bounds; eleven stream classes incl. constant/subnormal/outlier/tiny-range inputs and all config knobs.",
        note="Finite inputs |v| <= 1e12, documented config ranges; Node::error (+inf observed) is not among the judged error measures.", design_ref="DESIGN.md §3 C19"),
    "C09": dict(ready=True, category="exploration", technique="runtime monitoring: order-law monitor (reflexive/antisymmetric/transitive/total, agreement with an own lexicographic oracle) over exhaustive small pools and harvested solver solutions x generated goals",
        text="InsertionCost: all vectors over an 8-value alphabet up to length 3 exhaustively plus random pools up to length 9, every pair and triple; add/sub inverse on exactly representable operands. Goals: pools of 24-33 real solutions per generated problem x 18 objective-list shapes (incl. multi-objective and alternative goals), all pairs and (single-layer goals) all triples, total_order compared with lexicographic fitness; synthetic goals over the real GoalBuilder reach the +-0 handling.",
        note="No NaN/inf; mutual order of +-0 inside InsertionCost unspecified; solutions not seed-reproducible (problem, goal, operator sequence are).", design_ref="DESIGN.md §3 C09"),
    "C12": dict(ready=True, category="fault_enumeration", technique="runtime monitoring with injected faults: single-breach mutants of recorded valid (problem, solution) pairs at enumerated sites, classified by the independent replayer O1, judged by the real checker",
        text="For solver outputs O1 finds fully clean, CheckerContext::check must accept; then every mutation class the property names is applied at every applicable site (quick: seeded sample per class and solution), mutants O1 still finds valid are discarded as equivalent, all others must be rejected. Fault enumeration is the right level: the fault classes and sites are finite per solution and are listed in the evidence with accepted/rejected counts per class.",
        note="O1 decides validity; features the checker documents as unsupported (skills, compatibility, order, latest departure) are not injected; limit/capacity/relation breaches are injected on the problem side.", design_ref="DESIGN.md §3 C12"),
    "C06": dict(ready=True, category="exploration", technique="runtime monitoring: differential monitor - the real eval_job_insertion_in_route on micro-problems built with the public builders against an independent step-by-step simulator (O3), exhaustive over small tours and boundary grids, random above",
        text="(a) every Success (Concrete(i) for every leg, Any, Last; single and pickup-delivery jobs; static and dynamic demand mixed) is carried out on the spec and simulated by O3; (b) for single-task jobs in exhaustive best mode a Failure is only accepted when O3 finds no feasible (position, place, window) and the returned position must be in O3's feasible set. Deterministic families enumerate every location sequence for n <= 3 with windows at arrival -1/0/+1, shift end = return + {0,1,3}, capacity = peak + {0,1,2}; evidence counts each boundary tag.",
        note="Metric integer routing; no departure shift (latest = earliest departure); open vehicles have no shift end in vrp-core; activities already in the tour keep their chosen place/window.", design_ref="DESIGN.md §3 C06"),
    "C14": dict(ready=True, category="exploration", technique="runtime monitoring: lock-step reference-model monitor (Vec/bitset model) compared after every operation, exhaustive over all op sequences of length 4 (quick) / 5 (thorough), random histories above",
        text="Every operation history over Tour{insert_at, insert_last, remove, remove_activity_at, deep_copy} in four holders x closed/open and Registry/RegistryContext{use, free, get_route, use_route, free_route, next, available, deep_copy, deep_slice} is applied to the real structure and to a small model; all observable accessors are compared after every step, set-aside copies are re-compared to show independence.",
        note="Operations only inside their documented domain; iteration order never compared; 'at most one per group' for next() not asserted.", design_ref="DESIGN.md §3 C14"),
    "C20": dict(ready=True, category="exploration", technique="runtime monitoring: differential monitor - quoted InsertionCost components against the realised per-layer fitness change after carrying the insertion out through a real recreate step",
        text="On finalised micro-states the evaluator's quote for every tour (and the empty tour of every unused vehicle) at every Concrete(p) and Any is compared, layer by layer, with fitness(after) - fitness(before) where 'after' comes from InsertionHeuristic::process with a once-only evaluator; layers unassigned, tours, distance, value in all 48 goal orders; the cost layer only when the independent simulator finds zero waiting before and after.",
        note="Single-objective layers, metric routing, no left-over empty tours; O3 only names the side at fault.", design_ref="DESIGN.md §3 C20"),
    "C17": dict(ready=True, category="exploration", technique="runtime monitoring: contract monitors on every returned result (permutation / start node / cost not worse / logical step bound for LKH; disjoint, core-grown, density-reachable, no core unclustered for DBSCAN via own BFS; partition + nearest-medoid for k-medoids)",
        text="Directed seed-independent sets (all start permutations for n <= 5, 240 tiny DBSCAN inputs, k-medoids grids) plus seeded random geometry classes (float Euclid, integer grids with ties, duplicates, collinear, clustered, non-metric) with complete / k-nearest neighbour lists and start paths not starting at node 0; termination is bounded progress: cost-oracle calls are counted and exceeding max(2000 n^3, 200000) is a violation with the matrix as witness.",
        note="Symmetric finite costs; DBSCAN maximality is not stated by the property (observed only); k > n unspecified.", design_ref="DESIGN.md §3 C17"),
    "C08": dict(ready=True, category="exploration", technique="runtime monitoring: reference-model monitor (list of everything ever offered, unique ids) compared after every operation of random histories on Greedy / Elitism / Rosomaxa; end-to-end seeded re-solves compared under the goal",
        text="Histories of 1-201 operations over add, add_all(0-20), on_generation (7 termination-estimate schedules, 4 speed modes driving all three Rosomaxa phases and transitions), select, ranked, all, size with hostile fitness streams (ties, +-0, denormals, 1e300, monotone) and batch shapes; after every op: first ranked no worse than anything ever offered, ranked sorted, size bounds, select yields only offered individuals and something when non-empty. E2E: a solve seeded with a feasible solution (directly and through write/read_init_solution) never returns a worse one.",
        note="No NaN/inf fitness; documented config ranges; Rosomaxa's all() vs size() unspecified.", design_ref="DESIGN.md §3 C08"),
    "C13": dict(ready=True, category="exploration", technique="runtime monitoring: reference-model monitor - generated instance models printed in the three grammars, parsed by the real readers and compared field by field; own route simulation of constructive solves and constraint probes against the file's numbers; writer/reader round trips",
        text="Per case one geometry yields Solomon, Li&Lim and TSPLIB models (duplicates, depot not node 1, float-formatted coordinates, varying whitespace/CRLF) parsed rounded and exact through three API paths; ids, locations, demand kind/sign/value, windows, service times, fleet, capacity, shift window and all pairwise distances are compared with an integer-arithmetic oracle; planted capacity- and window-tight routes are probed (feasible stop accepted, stop breaking exactly one limit rejected) and 12 constructive methods are replayed against the file; complete solutions survive write -> read_init_solution.",
        note="Inputs inside the bundled grammar only; TSPLIB job id = node - 1; travel time = distance.", design_ref="DESIGN.md §3 C13"),
    "C10": dict(ready=True, category="exploration", technique="runtime monitoring: reference-model monitor - an oracle re-implementing the documented validation rules three-valued (violated / satisfied / unspecified) from the documentation text, compared with the real reader on valid documents + one recorded mutation each, under a panic monitor",
        text="Valid generated documents (G1 + enrichments: every job kind, relations, timestamped / profile-less matrices, coordinates) must be accepted; then one mutation out of 549 classes over 72 field classes is applied (per rule breakers and near-misses, per field a hostile value of the right JSON type) and the outcome is judged: panic, accepted although a documented rule is clearly broken, rejected with a code whose rule is satisfied or with an undocumented code although no rule is broken. Evidence lists per rule violating/satisfying documents and per field class the outcomes.",
        note="Only read_pragmatic is observed; boundaries the documentation leaves open are unspecified and never decide; completeness of the reported code list is tabulated, not judged.", design_ref="DESIGN.md §3 C10"),
    "C11": dict(ready=True, category="exploration", technique="runtime monitoring: round-trip identity monitor on documents (own JSON reader, numbers compared from their literals within 2 ulp) and differential monitor of read_init_solution against the solution JSON; CSV import compared field by field with the generated tables",
        text="(1) ser(parse(ser(d))) == ser(d) and d within ser(parse(d)) for problems (G1 + an extension pass adding every enum variant and optional field), matrices and solutions (solver output and synthetic ones with transit stops, commute, violations, metrics); floors require every enum variant and every optional field present and absent. (2) solver output read back by read_init_solution: per vehicle shift the same ordered (job, task, place index by tag, location, window in which service started) and the same unassigned set. (3) generated CSV tables -> import -> must validate and carry exactly the tables' data.",
        note="Clause 1 is decided on the serde model; clause 2 uses tagged multi-jobs as the docs demand; times/breaks/reloads not compared; transit/commute solutions and required breaks inside point stops are declared unsupported by the reader (inconclusive).", design_ref="DESIGN.md §3 C11"),
    "C05": dict(ready=True, category="exploration", technique="runtime monitoring with repository hooks: digest of the module-private RouteState/SolutionState (hook H1a) compared with a from-scratch recomputation at every hand-over of operator histories and, through a process-global observer (hook H1b), after every applied insertion inside histories and real solves",
        text="recompute(s) = deep copy, clear every route state, goal.accept_route_state per route, mark stale, goal.accept_solution_state - the entry points the code itself uses. At every step output of 5-40 step histories (10 recreates, 8 ruins, 6 local operators, default operator, static/dynamic hyper-heuristic, manual ruin + restore) all route keys of all routes, all solution keys, goal.fitness and total_order are compared; after every applied insertion (>= 10^5 per quick run, also inside real solves) the keys of the route that received it. Evidence lists comparisons per key and hand-over kind; every non-opaque key seen must have been compared at both points.",
        note="Routes whose tour the recompute itself changes are inconclusive; opaque value types are tabled; a defect shared by the incremental and the from-scratch path is invisible by construction (C01 is the independent oracle).", design_ref="DESIGN.md §3 C05"),
    "C03": dict(ready=True, category="exploration", technique="runtime monitoring: replay oracle recomputing schedule/load/distance/statistics/cost from routing data and visiting order, compared with every reported number",
        text="O1 replays each tour of each recorded solution from (visiting order, first departure): stop arrival/departure within the one-unit output rounding, per-stop load and cumulative distance exactly, tour and overall statistics, cost = fixed + distance*cd + duration*ct, and that the reported place tag belongs to a place explaining the reported interval.",
        note="Integral matrices/durations; fractional profile scale widens the per-leg split tolerance; tours with transit stops/commute only per-stop consistency (not generated).", design_ref="DESIGN.md §3 C03"),
}

NOT_YET = "check not built yet in this round (planned as a runtime monitor, see DESIGN.md §3)"

def main():
    props = [json.loads(l)["id"] for l in open(os.path.join(ROOT, "properties.jsonl"))]
    checks, na = [], []
    for pid in props:
        c = CHECKS.get(pid)
        if not c or not c["ready"]:
            na.append({"property_id": pid, "reason": (c or {}).get("na_reason", NOT_YET)})
            continue
        checks.append({
            "property_id": pid,
            "quick_cmd": f"./check {pid} quick",
            "thorough_cmd": f"./check {pid} thorough",
            "evidence_file": f"/verif/evidence/{pid}.json",
            "replay_cmd_template": f"./check {pid} --replay {{path}}",
            "engine": "vverif",
            "level_claimed": {"category": c["category"], "text": c["text"], "design_ref": c["design_ref"]},
            "level_note": c["note"],
            "technique": c["technique"],
        })
    manifest = {
        "version": 1,
        "setup_cmd": "./setup.sh",
        "hooks": {
            "guard": "--cfg reinterpretcat_vrp_verif",
            "enable": "harness/.cargo/config.toml sets build.rustflags = [\"--cfg\", \"reinterpretcat_vrp_verif\"]; every ./check builds /repo's crates as path dependencies with it",
            "baseline_off_cmd": "cd /repo && cargo nextest run --workspace --no-fail-fast --test-threads 8 --offline",
            "source_commits": HOOK_COMMITS,
            "add_only": True,
        },
        "engines": [{
            "name": "vverif",
            "path": "/verif/harness",
            "serves_properties": [c["property_id"] for c in checks],
            "kind_free_text": "Rust harness crate (one binary per property) linking the real /repo crates with hooks on, debug assertions and overflow checks enabled; generated hostile workloads, independent oracles/reference models, panic monitor; runtime monitoring only",
        }],
        "checks": checks,
        "not_applicable": na,
        "notes": "Runtime monitoring family only. Exit 0 = held on everything explored and coverage floors met; 1 = VIOLATION (unlisted); 2 = INCONCLUSIVE (never printed with a VIOLATION line). Known findings: /verif/known_findings.json.",
    }
    json.dump(manifest, open(os.path.join(ROOT, "MANIFEST.json"), "w"), indent=1)
    print("checks:", len(checks), "not_applicable:", len(na))

if __name__ == "__main__":
    main()
