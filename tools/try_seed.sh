#!/bin/bash
# try_seed.sh <patch.diff> <Cxx> [<Cyy> ...] -- applies the patch to /repo, runs the quick checks, restores /repo
patch=$1; shift
cd /repo && git status --short | grep -q . && { echo "/repo not clean"; exit 1; }
git apply "$patch" || { echo "patch does not apply"; exit 1; }
cd /verif
# evidence / replays of a run against a seeded tree go to a scratch root, never into /verif
export VERIF_ROOT=/tmp/vr-try; mkdir -p $VERIF_ROOT; cp /verif/known_findings.json $VERIF_ROOT/
for c in "$@"; do
  timeout 1200 ./check $c quick > /tmp/seedrun-$c.out 2>&1; echo "$c exit=$?"
  grep -E "VIOLATION|signature|SUMMARY|INCONCL" /tmp/seedrun-$c.out | cut -c1-230 | head -7
done
git -C /repo checkout -- . ; git -C /repo status --short | head -3
