#!/bin/bash
# sweep.sh <tier> <seed> [ids...] -- runs the checks one after another with a scratch VERIF_ROOT copy? No: against /verif itself (evidence is rewritten).
tier=$1; seed=$2; shift 2
ids=${@:-C01 C02 C03 C04 C05 C06 C07 C08 C09 C10 C11 C12 C13 C14 C15 C16 C17 C18 C19 C20}
for c in $ids; do
  VERIF_SEED=$seed /verif/check $c $tier > /tmp/sweep-$c-$tier-$seed.out 2>&1; rc=$?
  echo "$c $tier seed=$seed exit=$rc $(grep -E '^SUMMARY' /tmp/sweep-$c-$tier-$seed.out | cut -d' ' -f5-) $(grep -cE '^VIOLATION' /tmp/sweep-$c-$tier-$seed.out) violation-lines $(grep -cE '^KNOWN-FINDING' /tmp/sweep-$c-$tier-$seed.out) known-lines $(grep -E '^INCONCLUSIVE' /tmp/sweep-$c-$tier-$seed.out | head -1 | cut -c1-100)"
done
