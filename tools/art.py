#!/usr/bin/env python3
"""art.py <artefact.json> [tour] - terse view of a replay artefact (no job bodies)."""
import json,sys
a=json.load(open(sys.argv[1])); art=a['artefact']; only=int(sys.argv[2]) if len(sys.argv)>2 else None
print('sig:',a['signature']); print('what:',a['what'][:300]); print('extra:',json.dumps(art.get('extra'))[:300])
s=art.get('solution'); p=art['problem']
if not s: sys.exit()
def t(x): return x[11:19]
for ti,tour in enumerate(s['tours']):
    if only is not None and ti!=only: continue
    veh=[v for v in p['fleet']['vehicles'] if tour['vehicleId'] in v['vehicleIds']][0]
    sh=veh['shifts'][tour.get('shiftIndex',0)]
    print(f"tour{ti} {tour['vehicleId']}/{tour.get('shiftIndex',0)} cap={veh['capacity']} limits={veh.get('limits')} breaks={json.dumps(sh.get('breaks'))} reloads={json.dumps(sh.get('reloads'))[:200]} start={sh['start']['earliest'][11:19]}..{sh['start'].get('latest','-')[11:19]} end={(sh.get('end') or {}).get('latest','-')[11:19]} stat={tour['statistic']['distance']}/{tour['statistic']['duration']} {tour['statistic']['times']}")
    for si,st in enumerate(tour['stops']):
        acts=' | '.join(f"{x['type']}:{x['jobId']}" + (f"#{x['jobTag']}" if x.get('jobTag') else '') + (f"@{t(x['time']['start'])}-{t(x['time']['end'])}" if x.get('time') else '') for x in st['activities'])
        print(f"  s{si} loc={st.get('location',{}).get('index','-')} {t(st['time']['arrival'])}-{t(st['time']['departure'])} d={st.get('distance')} load={st['load']} :: {acts}")
print('unassigned:',[u['jobId'] for u in s.get('unassigned') or []],'violations:',s.get('violations'))
print('relations:',json.dumps(p['plan'].get('relations'))[:400])
