#!/bin/bash
# confirm_seed.sh <cNN> <demo command (run inside the worktree)> -- re-runs tests + demo with and without the change in /tmp/seed-<cNN>
# (no git stash: the stash is shared between all worktrees of a repository)
c=$1; shift
cd /tmp/seed-$c || exit 1
git diff > /tmp/confirm-$c.patch
echo "== tests with change"; cargo nextest run --workspace --no-fail-fast --test-threads 8 --offline 2>&1 | grep -E "Summary|FAIL \[" | head -5
echo "== demo with change"; bash -c "$*" 2>&1 | grep -v "index created" | tail -2; echo "exit=${PIPESTATUS[0]}"
git apply -R /tmp/confirm-$c.patch
echo "== demo without change"; bash -c "$*" 2>&1 | grep -v "index created" | tail -2; echo "exit=${PIPESTATUS[0]}"
git apply /tmp/confirm-$c.patch
