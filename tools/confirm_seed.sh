#!/bin/bash
# confirm_seed.sh <cNN> <demo command (run inside the worktree)> -- re-runs tests + demo with and without the change in /tmp/seed-<cNN>
c=$1; shift
cd /tmp/seed-$c || exit 1
echo "== tests with change"; cargo nextest run --workspace --no-fail-fast --test-threads 8 --offline 2>&1 | grep -E "Summary|FAIL \[" | head -5
echo "== demo with change"; bash -c "$*" 2>&1 | grep -v "index created" | tail -2; echo "exit=${PIPESTATUS[0]}"
git stash -q
echo "== demo without change"; bash -c "$*" 2>&1 | grep -v "index created" | tail -2; echo "exit=${PIPESTATUS[0]}"
git stash pop -q
