#!/usr/bin/env python3
"""showart.py <artefact.json> [tour] - unpack a replay artefact and print it with showcase.py"""
import json,sys,os,subprocess,tempfile
a=json.load(open(sys.argv[1])); art=a['artefact']
d=tempfile.mkdtemp(prefix='art')
json.dump(art['problem'],open(f'{d}/p0.json','w')); json.dump(art['solution'],open(f'{d}/s0.json','w'))
print('signature:',a['signature']); print('what:',a['what']); print('shape:',art.get('shape')); print('config:',json.dumps(art['config'])[:600])
rel=art['problem']['plan'].get('relations')
if rel: print('relations:',json.dumps(rel))
if art['solution'] is None: print('extra:',art['extra']); sys.exit()
subprocess.run([sys.executable, os.path.join(os.path.dirname(__file__),'showcase.py'), d, '0']+sys.argv[2:])
