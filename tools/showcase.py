#!/usr/bin/env python3
"""Developer viewer: showcase.py <dir> <i> [tour] - prints tours of a dumped case compactly + relevant problem parts."""
import json,sys
d,i=sys.argv[1],sys.argv[2]
only=int(sys.argv[3]) if len(sys.argv)>3 else None
p=json.load(open(f'{d}/p{i}.json')); s=json.load(open(f'{d}/s{i}.json'))
def t(x): return x[11:19]
jobs={j['id']:j for j in p['plan']['jobs']}
for ti,tour in enumerate(s['tours']):
    if only is not None and ti!=only: continue
    print(f"== tour {ti} {tour['vehicleId']} shift {tour.get('shiftIndex')} stat {json.dumps(tour['statistic'])}")
    veh=[v for v in p['fleet']['vehicles'] if tour['vehicleId'] in v['vehicleIds']][0]
    print('   vehicle:',json.dumps({k:veh[k] for k in veh if k not in('vehicleIds','shifts')}))
    print('   shift:',json.dumps(veh['shifts'][tour.get('shiftIndex',0)]))
    seen=set()
    for si,st in enumerate(tour['stops']):
        print(f"  stop {si} loc {st.get('location',{}).get('index','-')} {t(st['time']['arrival'])}-{t(st['time']['departure'])} dist {st.get('distance')} load {st['load']}")
        for a in st['activities']:
            tm=a.get('time'); tm=f"{t(tm['start'])}-{t(tm['end'])}" if tm else ''
            print(f"      {a['type']:10} {a['jobId']:8} tag={a.get('jobTag')} loc={a.get('location',{}).get('index','') if a.get('location') else ''} {tm}")
            if a['jobId'] in jobs and a['jobId'] not in seen:
                seen.add(a['jobId']); print('         job:',json.dumps(jobs[a['jobId']])[:600])
print('unassigned:',json.dumps(s.get('unassigned'))[:600]); print('violations:',s.get('violations'))
if 'resources' in p['fleet']: print('resources', p['fleet']['resources'])
print('objectives',json.dumps(p.get('objectives')))
