#!/bin/bash
# arch.sh <id> <Name-with-Cxx-prefix> <check> <result text> [<check> <result text> ...] -- archive a confirmed seeded change (wave 10 convention)
id=$1; name=$2; shift 2
checks="{"
while [ $# -gt 1 ]; do checks="$checks$(python3 -c 'import json,sys; print(json.dumps(sys.argv[1])+": "+json.dumps(sys.argv[2]))' "$1" "$2")"; shift 2; [ $# -gt 1 ] && checks="$checks, "; done
checks="$checks}"
python3 /verif/tools/archive_seed.py $id $name '{"tests": "1212 passed in the scratch worktree with the change", "demo_with_change": "exit 1", "demo_without_change": "exit 0"}' "$checks"
