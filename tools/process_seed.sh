#!/bin/bash
# process_seed.sh <id e.g. c10b> <crate> <example> <Cxx> [<Cyy>...] : confirm in the worktree, then run the checks against the patch
id=$1; crate=$2; ex=$3; shift 3
/verif/tools/confirm_seed.sh $id "cargo run --offline -q -p $crate --example $ex" 2>&1 | cut -c1-260
/verif/tools/try_seed.sh /tmp/seed-out/$id/patch.diff "$@"
