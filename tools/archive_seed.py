#!/usr/bin/env python3
"""archive_seed.py <cNN> <name> '<confirmed json>' '<checks json>' : copies /tmp/seed-out/<cNN> to /verif/seeded/<name>, augments meta.json, removes the worktree."""
import json,sys,shutil,os,subprocess
c,name,conf,checks=sys.argv[1:5]
dst=f'/verif/seeded/{name}'
shutil.copytree(f'/tmp/seed-out/{c}',dst,dirs_exist_ok=True)
p=f'{dst}/meta.json'
try: m=json.load(open(p))
except Exception: m={}
m['confirmed_by_main']=json.loads(conf); m['checks_run_against_it']=json.loads(checks)
json.dump(m,open(p,'w'),indent=1)
subprocess.run(['git','-C','/repo','worktree','remove','--force',f'/tmp/seed-{c}'])
print('archived',dst)
