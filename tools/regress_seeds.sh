#!/bin/bash
# regress_seeds.sh [name-prefix] -- applies every seeded change to /repo in turn, runs the quick check of its property, restores /repo.
# Expected: every line "caught" (exit 1). Writes nothing into /verif: evidence/replays go to a scratch VERIF_ROOT.
cd /repo && git status --short | grep -q . && { echo "/repo not clean"; exit 1; }
SCRATCH=$(mktemp -d /tmp/vr-regress.XXXX); cp /verif/known_findings.json $SCRATCH/
missed=0
for d in /verif/seeded/C${1:+${1#C}}*/; do
  name=$(basename $d); prop=${name:0:3}
  git -C /repo apply $d/patch.diff 2>/dev/null || { echo "$name: patch does not apply"; continue; }
  VERIF_ROOT=$SCRATCH timeout 1500 /verif/check $prop quick > $SCRATCH/$name.out 2>&1; rc=$?
  git -C /repo checkout -- .
  if [ $rc -eq 1 ]; then echo "$name: caught ($(grep -c '^VIOLATION' $SCRATCH/$name.out) signatures)"; else echo "$name: NOT caught (exit $rc)"; missed=$((missed+1)); fi
done
echo "missed=$missed"; rm -rf $SCRATCH
