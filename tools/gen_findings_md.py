#!/usr/bin/env python3
"""Regenerates the block between <!-- FINDINGS:BEGIN --> and <!-- FINDINGS:END --> in DESIGN.md from known_findings.json and /repo's git log."""
import json,subprocess,re,collections
ROOT='/verif'
f=json.load(open(f'{ROOT}/known_findings.json'))['findings']
log=subprocess.run(['git','-C','/repo','log','--format=%h %s','1c1172b..HEAD'],capture_output=True,text=True).stdout.strip().splitlines()
commits=[(l.split()[0],' '.join(l.split()[1:])) for l in log if ' fix:' in ' '+l]
fixed_by=collections.defaultdict(list)
for x in f:
    if x['status']=='fixed': fixed_by[x.get('commit','?')].append(x)
out=[]
out.append('#### `fix:` commits in `/repo` (oldest first; after each: pinned suite 1212 passed, apart from the ~2 % flakiness of `can_compact_tour` that the pinned commit shows as well)\n')
out.append('| Commit | Subject | Properties / signatures that showed it |')
out.append('|---|---|---|')
for h,subj in reversed(commits):
    xs=fixed_by.get(h,[])
    props=sorted({x['property'] for x in xs})
    sigs='; '.join(sorted({x['signature'] for x in xs})[:3])+(' …' if len(xs)>3 else '')
    out.append(f"| `{h}` | {subj[5:]} | {', '.join(props) or '(see text)'}: {('`'+sigs+'`') if sigs else ''} |")
out.append('')
out.append('#### Listed as known (the check prints `KNOWN-FINDING:` and exits 0 for exactly these signatures)\n')
byp=collections.defaultdict(list)
for x in f:
    if x['status']=='known': byp[x['property']].append(x)
out.append('| Property | # signatures | What (grouped) |')
out.append('|---|---|---|')
for p in sorted(byp):
    groups=collections.OrderedDict()
    for x in byp[p]: groups.setdefault(x['what'],[]).append(x['signature'])
    desc=' <br> '.join(f"{len(s)}× {w[:260]}" + (f" (e.g. `{s[0]}`)" ) for w,s in list(groups.items())[:14])
    if len(groups)>14: desc+=f' <br> … {len(groups)-14} more groups, see known_findings.json'
    out.append(f"| {p} | {len(byp[p])} | {desc} |")
block='\n'.join(out)
s=open(f'{ROOT}/DESIGN.md').read()
b,e='<!-- FINDINGS:BEGIN -->','<!-- FINDINGS:END -->'
if b in s:
    s=s[:s.index(b)+len(b)]+'\n'+block+'\n'+s[s.index(e):]
    open(f'{ROOT}/DESIGN.md','w').write(s)
    print('updated',len(commits),'commits',sum(len(v) for v in byp.values()),'known')
else:
    print(block)
